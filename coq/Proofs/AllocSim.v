(* The lock-step simulation between the arena runner (a_step / a_run over Model/Alloc.v) and the
   reference runner (r_step / r_run over Model/AllocRef.v) of Model/AllocHist.v: the arena's node
   list denotes the reference's node list, live checkpoints correspond, and the three counts and
   the limit are equal - after every operation of every history in which the arena side never
   panics, never takes the F2 branch of new_substr (neither the copy, flagged by a_f2, nor - in the
   repaired variant - its OutOfMemory) and maybe_restore_with_node never reports "invalid atom byte
   range". [sim_run] is the fold; [history_counts] the closed statement from the initial states. *)
From Coq Require Import Lia ZifyBool ZifyN ZifyNat List.
From Clvm Require Import Model.AllocHist Proofs.BytesLemmas Proofs.IntEncBasics Proofs.IntEncProofs
  Proofs.AllocHeap Proofs.AllocOps Proofs.AllocEnc Proofs.AllocRestore Proofs.AllocReads Proofs.AllocBasics
  Proofs.AllocInv.
Import ListNotations.
Open Scope N_scope.
Arguments N.add : simpl never.
Arguments N.sub : simpl never.
Arguments N.mul : simpl never.
Arguments N.eqb : simpl never.
Arguments N.ltb : simpl never.
Arguments N.leb : simpl never.

(* ------------------------------------------------------------------ the relation *)

Definition den (h : heap) (n : nodeptr) (t : sexp) : Prop := denote h n = Some t.

Definition cp_sim (e : cpent) (r : rcpent) : Prop :=
  match e, r with
  | CFull c nl, RFull cnt nl' =>
      nl' = nl /\
      cnt = (c_atoms (c_inner c) + c_ga c, c_pairs (c_inner c) + c_gp c, c_u8s (c_inner c) + c_gh c)
  | CTrans _ nl, RTrans nl' => nl' = nl
  | _, _ => False
  end.

(* everything but the arena-side invariant *)
Record SIMR (st : ast) (rs : rst) : Prop := mkSIMR {
  sr_live : r_dead rs = false;
  sr_counts : counts (a_al st) = r_counts (r_st rs);
  sr_limit : heap_limit (a_al st) = r_limit (r_st rs);
  sr_nodes : Forall2 (den (hp (a_al st))) (a_nodes st) (r_nodes rs);
  sr_cps : Forall2 cp_sim (a_cps st) (r_cps rs) }.

Record SIM (st : ast) (rs : rst) : Prop := mkSIM { sim_inv : AINV st; sim_r : SIMR st rs }.

(* the argument types of the Rust API *)
Definition wf_op2 (o : op) : Prop :=
  match o with
  | ONewAtom b => wf_bytes b = true
  | ONewU64 v => v < 2 ^ 64
  | ONewI64 z => (- 2 ^ 63 <= z < 2 ^ 63)%Z
  | _ => True
  end.

Lemma wf_op2_wf o : wf_op2 o -> wf_op o.
Proof. destruct o; cbn; auto. Qed.

(* what the theorem excludes besides panics and the a_f2 flag *)
Definition step_ok (fx : bool) (o : op) (ob : obs) : Prop :=
  match o with
  | ONewSubstr _ _ _ => fx = false \/ ob <> ObErr OutOfMemory
  | OMaybeRestore _ _ => ob <> ObErr (InternalError 5)
  | _ => True
  end.

Fixpoint clean_run (fx : bool) (st : ast) (h : list op) : Prop :=
  match h with
  | [] => True
  | o :: r => step_ok fx o (snd (a_step fx st o)) /\ clean_run fx (fst (a_step fx st o)) r
  end.

(* ------------------------------------------------------------------ lists *)

Lemma forall2_nth {A B} (R : A -> B -> Prop) l l' : Forall2 R l l' -> forall i,
  match nth_N l i, nth_N l' i with
  | Some x, Some y => R x y
  | None, None => True
  | _, _ => False
  end.
Proof.
  unfold nth_N. intros H i. generalize (N.to_nat i). clear i.
  induction H as [|x y l l' Hxy _ IH]; intros [|k]; cbn; auto. apply IH.
Qed.

Lemma forall2_get_all {A B} (R : A -> B -> Prop) l l' : Forall2 R l l' -> forall is,
  match get_all l is, get_all l' is with
  | Some xs, Some ys => Forall2 R xs ys
  | None, None => True
  | _, _ => False
  end.
Proof.
  intros H. induction is as [|i r IH]; cbn [get_all]; [constructor|].
  pose proof (forall2_nth R l l' H i) as Hi.
  destruct (nth_N l i), (nth_N l' i); try contradiction; [|destruct (get_all l r), (get_all l' r); auto].
  destruct (get_all l r), (get_all l' r); try contradiction; auto.
Qed.

Lemma forall2_take {A B} (R : A -> B -> Prop) n l l' : Forall2 R l l' -> Forall2 R (take_N n l) (take_N n l').
Proof.
  unfold take_N. intros H. generalize (N.to_nat n). clear n.
  induction H as [|x y l l' Hxy _ IH]; intros [|k]; cbn; constructor; auto.
Qed.

Lemma forall2_skipn {A B} (R : A -> B -> Prop) k l l' : Forall2 R l l' -> Forall2 R (skipn k l) (skipn k l').
Proof.
  intros H. revert k. induction H as [|x y l l' Hxy H IH]; intros [|k]; cbn; auto.
Qed.

Lemma forall2_nlen {A B} (R : A -> B -> Prop) l l' : Forall2 R l l' -> nlen l' = nlen l.
Proof. intros H. unfold nlen. induction H as [|x y l l' _ _ IH]; cbn [length]; [reflexivity|lia]. Qed.

Lemma den_ext_all h h' ns ts : ext h h' -> Forall2 (den h) ns ts -> Forall2 (den h') ns ts.
Proof.
  intros He H. induction H as [|n t ns ts Hn _ IH]; constructor; [|exact IH].
  unfold den in *. eapply denote_ext; eauto.
Qed.

Lemma den_trunc_all h c ns ts : WF (trunc h c) -> Forall (vnode (trunc h c)) ns ->
  Forall2 (den h) ns ts -> Forall2 (den (trunc h c)) ns ts.
Proof.
  intros Hw Hv H. induction H as [|n t ns ts Hn _ IH]; [constructor|].
  inversion Hv as [|? ? V1 V2]; subst. constructor; [|apply IH; exact V2].
  unfold den in *. rewrite <- Hn. symmetry. apply denote_stable; [exact Hw|apply trunc_ext|exact V1].
Qed.

Lemma den_cons_pair h x l r : den h x (Cons l r) -> exists k, x = PairP k.
Proof.
  intros H. pose proof (denote_atom_or_pair _ _ _ H) as K.
  destruct x as [k|k|k]; [eauto|destruct K as [b K]; discriminate|destruct K as [b K]; discriminate].
Qed.

(* ------------------------------------------------------------------ small facts about the runners *)

Lemma triple_eq (a b c a' b' c' : N) : (a, b, c) = (a', b', c') -> a = a' /\ b = b' /\ c = c'.
Proof.
  intros H. apply pair_equal_spec in H. destruct H as [H H3].
  apply pair_equal_spec in H. destruct H as [H1 H2]. auto.
Qed.

Lemma simr_eqs st rs : SIMR st rs ->
  atom_count (a_al st) = r_atoms (r_st rs) /\ pair_count (a_al st) = r_pairs (r_st rs) /\
  heap_size (a_al st) = r_heap (r_st rs) /\ heap_limit (a_al st) = r_limit (r_st rs).
Proof.
  intros H. pose proof (sr_counts _ _ H) as C. unfold counts, r_counts in C.
  apply triple_eq in C. destruct C as (C1 & C2 & C3). pose proof (sr_limit _ _ H). auto.
Qed.

Lemma a_fail_live st e : a_dead (fst (a_fail st e)) = false -> is_panic e = false /\ fst (a_fail st e) = st.
Proof. unfold a_fail. destruct (is_panic e); cbn; [discriminate|auto]. Qed.

Lemma a_ret_read_live st r : a_dead (fst (a_ret_read st r)) = false -> fst (a_ret_read st r) = st.
Proof. unfold a_ret_read. destruct r as [o|e]; [reflexivity|]. intros H. apply (a_fail_live _ _ H). Qed.

Lemma r_fail_soft rs e : is_panic e = false -> fst (r_fail rs e) = rs.
Proof. unfold r_fail. intros ->. reflexivity. Qed.

(* ------------------------------------------------------------------ generic steps *)

Lemma simr_alloc st rs al' n t s' f2 : SIMR st rs ->
  ext (hp (a_al st)) (hp al') -> heap_limit al' = heap_limit (a_al st) -> den (hp al') n t ->
  counts al' = r_counts s' -> r_limit s' = r_limit (r_st rs) ->
  SIMR (mkA al' (a_nodes st ++ [n]) (a_cps st) f2 false) (mkRS s' (r_nodes rs ++ [t]) (r_cps rs) false).
Proof.
  intros [H1 H2 H3 H4 H5] He Hl Hn Hc Hl'. split; cbn [a_al a_nodes a_cps r_st r_nodes r_cps r_dead].
  - reflexivity.
  - exact Hc.
  - rewrite Hl, Hl'. exact H3.
  - apply Forall2_app; [eapply den_ext_all; eauto|constructor; [exact Hn|constructor]].
  - exact H5.
Qed.

Lemma simr_ghost st rs al' s' f2 : SIMR st rs -> hp al' = hp (a_al st) ->
  heap_limit al' = heap_limit (a_al st) -> counts al' = r_counts s' -> r_limit s' = r_limit (r_st rs) ->
  SIMR (mkA al' (a_nodes st) (a_cps st) f2 false) (mkRS s' (r_nodes rs) (r_cps rs) false).
Proof.
  intros [H1 H2 H3 H4 H5] Hh Hl Hc Hl'. split; cbn [a_al a_nodes a_cps r_st r_nodes r_cps r_dead].
  - reflexivity.
  - exact Hc.
  - rewrite Hl, Hl'. exact H3.
  - rewrite Hh. exact H4.
  - exact H5.
Qed.

(* ------------------------------------------------------------------ atoms and integers *)

Lemma simr_new_atom st rs b : SIM st rs -> wf_bytes b = true ->
  a_dead (fst (a_ret_node st (new_atom (a_al st) b))) = false ->
  SIMR (fst (a_ret_node st (new_atom (a_al st) b))) (fst (r_ret_node rs (r_new_atom (r_st rs) b))).
Proof.
  intros [Hi HS] Hb Hd. destruct (simr_eqs _ _ HS) as (E1 & E2 & E3 & E4).
  pose proof (new_atom_spec (a_al st) b (ai_ok _ Hi) Hb) as S. unfold a_ret_node in *.
  unfold r_new_atom, r_heap_over, r_atoms_full.
  destruct (new_atom (a_al st) b) as [[al n]|e].
  - destruct S as (S1 & S2 & S3 & S4 & S5 & S6 & (B0 & B1 & B2 & B3)).
    replace (r_limit (r_st rs) <? r_heap (r_st rs) + blen b) with false by lia.
    replace (r_atoms (r_st rs) =? R_MAX_ATOMS) with false by (unfold R_MAX_ATOMS, MAX_NUM_ATOMS in *; lia).
    cbn [r_ret_node fst]. apply simr_alloc; try assumption; [|reflexivity].
    unfold counts, r_counts, r_bump. cbn [r_atoms r_pairs r_heap]. f_equal; [f_equal|]; lia.
  - destruct (a_fail_live _ _ Hd) as [Hp ->].
    destruct S as [[-> S]|[-> (S1 & S2)]].
    + replace (r_limit (r_st rs) <? r_heap (r_st rs) + blen b) with true by lia. exact HS.
    + replace (r_limit (r_st rs) <? r_heap (r_st rs) + blen b) with false by lia.
      replace (r_atoms (r_st rs) =? R_MAX_ATOMS) with true by (unfold R_MAX_ATOMS, MAX_NUM_ATOMS in *; lia).
      exact HS.
Qed.

Lemma simr_new_small st rs v : SIM st rs -> v <= NODE_PTR_IDX_MASK ->
  a_dead (fst (a_ret_node st (new_small_number (a_al st) v))) = false ->
  SIMR (fst (a_ret_node st (new_small_number (a_al st) v)))
       (fst (r_ret_node rs (r_new_atom (r_st rs) (bytes_of_int (Z.of_N v))))).
Proof.
  intros HS Hv. rewrite new_small_number_spec by (try apply (ai_ok _ (sim_inv _ _ HS)); exact Hv).
  rewrite small_bytes_spec by exact Hv. apply simr_new_atom; [exact HS|apply bytes_of_int_wf].
Qed.

Lemma simr_new_number st rs z : SIM st rs ->
  a_dead (fst (a_ret_node st (new_number (a_al st) z))) = false ->
  SIMR (fst (a_ret_node st (new_number (a_al st) z))) (fst (r_ret_node rs (r_new_atom (r_st rs) (bytes_of_int z)))).
Proof.
  intros HS. unfold new_number.
  destruct ((0 <=? z)%Z && (z <=? Z.of_N NODE_PTR_IDX_MASK)%Z) eqn:E.
  - intros Hd. replace z with (Z.of_N (Z.to_N z)) at 2 by lia. apply simr_new_small; [exact HS|lia|exact Hd].
  - rewrite strip_to_signed. apply simr_new_atom; [exact HS|apply bytes_of_int_wf].
Qed.

(* ------------------------------------------------------------------ concatenation: the error side *)

Lemma concat_loop_err_ref a size e : WF (hp a) -> forall nodes ts, Forall (vnode (hp a)) nodes ->
  Forall2 (den (hp a)) nodes ts ->
  forall counter acc, (exists y, acc = u8 (hp a) ++ y) ->
  concat_loop a size nodes acc counter = Err e ->
  all_atoms ts = None \/ exists bs, all_atoms ts = Some bs /\ size < counter + blen bs.
Proof.
  intros Hw. induction nodes as [|m ms IH]; intros ts Hms Hts counter acc Hacc H; [discriminate|].
  inversion Hms as [|? ? Hm Hms']; subst. inversion Hts as [|? t ? ts' Ht Hts']; subst.
  destruct m as [i|i|v]; cbn [concat_loop] in H.
  - left. pose proof (denote_atom_or_pair _ _ _ Ht) as (l & r & ->). reflexivity.
  - pose proof (denote_atom_or_pair _ _ _ Ht) as (b & ->).
    cbn in Hm. destruct (nth_N_lt _ _ Hm) as [[s e'] E]. unfold get_atom in H. rewrite E in H.
    cbn [bind] in H. unfold buf_len in H. cbn [fst snd] in H. pose proof Hw as [W1 W2 W3].
    assert (Hin : In (s, e') (atoms (hp a))) by (eapply nth_error_In; exact E).
    rewrite Forall_forall in W2. destruct (W2 _ Hin) as [A B]. cbn in A, B.
    replace (e' <? s) with false in H by lia. cbn [bind] in H.
    destruct (slice_ok _ _ _ A B) as (b' & Sb & Lb).
    assert (Hb : b = b').
    { unfold den, denote in Ht. cbn in Ht. rewrite E, Sb in Ht. apply AllocOps.Some_inj in Ht.
      apply (f_equal (fun t => match t with Atom x => x | _ => [] end)) in Ht. cbn in Ht. auto. }
    subst b'. cbn [all_atoms].
    destruct (size <? counter + (e' - s)) eqn:Eo.
    { destruct (all_atoms ts') as [c|]; [right|left; reflexivity].
      exists (b ++ c). split; [reflexivity|]. unfold blen in *. rewrite app_length. lia. }
    destruct Hacc as [y Hy]. rewrite Hy in H at 1. rewrite (slice_app_l _ y _ _ _ Sb) in H.
    destruct (IH ts' Hms' Hts' (counter + (e' - s)) (acc ++ b)) as [N|(c & C1 & C2)].
    { exists (y ++ b). rewrite Hy, app_assoc. reflexivity. }
    { exact H. }
    { left. rewrite N. reflexivity. }
    { right. rewrite C1. exists (b ++ c). split; [reflexivity|]. unfold blen in *. rewrite app_length. lia. }
  - pose proof (denote_atom_or_pair _ _ _ Ht) as (b & ->).
    cbn in Hm. rewrite small_bytes_ok in H by exact Hm. cbn [bind] in H.
    assert (Hb : b = be_bytes (N.to_nat (len_for_value v)) v).
    { unfold den in Ht. rewrite denote_small in Ht by exact Hm. apply AllocOps.Some_inj in Ht.
      apply (f_equal (fun t => match t with Atom x => x | _ => [] end)) in Ht. cbn in Ht. auto. }
    cbn [all_atoms].
    destruct (IH ts' Hms' Hts' (counter + len_for_value v) (acc ++ be_bytes (N.to_nat (len_for_value v)) v)) as [N|(c & C1 & C2)].
    { destruct Hacc as [y Hy]. exists (y ++ be_bytes (N.to_nat (len_for_value v)) v). rewrite Hy, app_assoc. reflexivity. }
    { exact H. }
    { left. rewrite N. reflexivity. }
    { right. rewrite C1. exists (b ++ c). split; [reflexivity|].
      unfold blen in *. rewrite app_length. rewrite Hb at 1. rewrite be_bytes_length. lia. }
Qed.

(* an InternalError of new_concat: the reference's size / all-atoms test fails too *)
Lemma new_concat_ie_ref a size nodes ts k : AOK a -> Forall (vnode (hp a)) nodes ->
  Forall2 (den (hp a)) nodes ts -> new_concat a size nodes = Err (InternalError k) ->
  match ts with
  | [] => (size =? 0) = false
  | [Cons _ _] => False
  | _ => all_atoms ts = None \/ exists bs, all_atoms ts = Some bs /\ (blen bs =? size) = false
  end.
Proof.
  intros [Hw Hc] Hv Hts. unfold new_concat, check_atom_limit.
  destruct (atoms_len a + ghost_atoms a =? MAX_NUM_ATOMS); [discriminate|]. cbn [bind].
  destruct (heap_limit a <? u8_len a + ghost_heap a + size); [discriminate|].
  destruct nodes as [|n [|n2 rest]].
  - inversion Hts; subst. destruct (size =? 0); cbn [negb]; [discriminate|reflexivity].
  - inversion Hts as [|? t ? ts' Ht Hnil]; subst. inversion Hnil; subst.
    destruct t as [b|l r].
    + rewrite (atom_len_spec _ _ _ Ht). cbn [bind all_atoms]. rewrite app_nil_r.
      destruct (blen b =? size) eqn:E; cbn [negb]; [discriminate|]. intros _. right. exists b. auto.
    + destruct (den_cons_pair _ _ _ _ Ht) as [i ->]. cbn. discriminate.
  - destruct (concat_loop a size (n :: n2 :: rest) (u8 (hp a)) 0) as [[acc counter]|e] eqn:EL; cbn [bind].
    + destruct (concat_loop_spec a size Hw _ _ _ _ _ Hv ltac:(exists []; now rewrite app_nil_r) EL) as (x & X1 & X2 & X3 & X4).
      destruct (X4 _ Hts) as (bs & B1 & B2).
      destruct (counter =? size) eqn:E; cbn [negb]; [discriminate|]. intros _.
      assert (R : all_atoms ts = None \/ exists bs, all_atoms ts = Some bs /\ (blen bs =? size) = false).
      { right. exists bs. split; [exact B1|]. subst x. lia. }
      inversion Hts as [|? t1 ? ts1 _ Hts1]; subst. inversion Hts1; subst. destruct t1; exact R.
    + intros _.
      destruct (concat_loop_err_ref a size e Hw _ ts Hv Hts 0 (u8 (hp a)) ltac:(exists []; now rewrite app_nil_r) EL)
        as [N|(bs & B1 & B2)].
      * assert (R : all_atoms ts = None \/ exists bs, all_atoms ts = Some bs /\ (blen bs =? size) = false) by (left; exact N).
        inversion Hts as [|? t1 ? ts1 _ Hts1]; subst. inversion Hts1; subst. destruct t1; exact R.
      * assert (R : all_atoms ts = None \/ exists bs, all_atoms ts = Some bs /\ (blen bs =? size) = false).
        { right. exists bs. split; [exact B1|lia]. }
        inversion Hts as [|? t1 ? ts1 _ Hts1]; subst. inversion Hts1; subst. destruct t1; exact R.
Qed.

Lemma simr_refl st rs : SIMR st rs -> SIMR st rs.
Proof. exact (fun H => H). Qed.

Lemma simr_new_concat st rs size xs ts : SIM st rs ->
  Forall (vnode (hp (a_al st))) xs -> Forall2 (den (hp (a_al st))) xs ts ->
  a_dead (fst (a_ret_node st (new_concat (a_al st) size xs))) = false ->
  SIMR (fst (a_ret_node st (new_concat (a_al st) size xs))) (fst (r_ret_node rs (r_new_concat (r_st rs) size ts))).
Proof.
  intros [Hi HS] Hxs Hts Hd. destruct (simr_eqs _ _ HS) as (E1 & E2 & E3 & E4).
  pose proof (ai_ok _ Hi) as Hok.
  pose proof (new_concat_spec (a_al st) size xs Hok Hxs) as S.
  pose proof (new_concat_ie_ref (a_al st) size xs ts) as IE.
  unfold a_ret_node in *. unfold r_new_concat, r_heap_over, r_atoms_full.
  destruct (new_concat (a_al st) size xs) as [[al n]|e].
  - destruct S as (S1 & S2 & S3 & S4 & S5 & (B0 & B1 & B2 & B3) & S7).
    destruct (S7 ts Hts) as (bs & A1 & A2 & A3).
    replace (r_atoms (r_st rs) =? R_MAX_ATOMS) with false by (unfold R_MAX_ATOMS, MAX_NUM_ATOMS in *; lia).
    replace (r_limit (r_st rs) <? r_heap (r_st rs) + size) with false by lia.
    assert (G : forall s', counts al = r_counts s' -> r_limit s' = r_limit (r_st rs) ->
                SIMR (fst (mkA al (a_nodes st ++ [n]) (a_cps st) (a_f2 st) false, ObNode (denote (hp al) n)))
                     (fst (r_ret_node rs (Ok (s', Atom bs))))).
    { intros s' C L. cbn [r_ret_node fst]. apply simr_alloc; assumption. }
    destruct ts as [|t1 [|t2 ts2]].
    + cbn in A1. apply AllocOps.Some_inj in A1. subst bs. unfold blen in A2. cbn in A2.
      replace (size =? 0) with true by lia. apply G; [|reflexivity].
      unfold counts, r_counts, r_bump. cbn [r_atoms r_pairs r_heap]. f_equal; [f_equal|]; lia.
    + destruct t1 as [b1|l1 r1]; [|discriminate]. cbn [all_atoms] in *. apply AllocOps.Some_inj in A1. rewrite A1.
      replace (blen bs =? size) with true by lia. apply G; [|reflexivity].
      unfold counts, r_counts, r_bump. cbn [r_atoms r_pairs r_heap]. f_equal; [f_equal|]; lia.
    + rewrite A1. replace (blen bs =? size) with true by lia.
      assert (G2 : SIMR (fst (mkA al (a_nodes st ++ [n]) (a_cps st) (a_f2 st) false, ObNode (denote (hp al) n)))
                        (fst (r_ret_node rs (Ok (r_bump (r_st rs) 1 0 size, Atom bs))))).
      { apply G; [|reflexivity].
        unfold counts, r_counts, r_bump. cbn [r_atoms r_pairs r_heap]. f_equal; [f_equal|]; lia. }
      destruct t1; exact G2.
  - destruct (a_fail_live _ _ Hd) as [Hp ->].
    destruct S as [[-> S]|(S0 & [[-> S]|(S1 & k & [->| ->])])].
    + replace (r_atoms (r_st rs) =? R_MAX_ATOMS) with true by (unfold R_MAX_ATOMS, MAX_NUM_ATOMS in *; lia).
      exact HS.
    + replace (r_atoms (r_st rs) =? R_MAX_ATOMS) with false by (unfold R_MAX_ATOMS, MAX_NUM_ATOMS in *; lia).
      replace (r_limit (r_st rs) <? r_heap (r_st rs) + size) with true by lia. exact HS.
    + replace (r_atoms (r_st rs) =? R_MAX_ATOMS) with false by (unfold R_MAX_ATOMS, MAX_NUM_ATOMS in *; lia).
      replace (r_limit (r_st rs) <? r_heap (r_st rs) + size) with false by lia.
      specialize (IE k Hok Hxs Hts eq_refl).
      destruct ts as [|t1 [|t2 ts2]].
      * rewrite IE. exact HS.
      * destruct t1 as [b1|l1 r1]; [|contradiction].
        destruct IE as [N|(bs & B1 & B2)]; [rewrite N|rewrite B1, B2]; exact HS.
      * destruct t1; (destruct IE as [N|(bs & B1 & B2)]; [rewrite N|rewrite B1, B2]; exact HS).
    + discriminate.
Qed.

(* ------------------------------------------------------------------ one step *)

Lemma nodes_vnode st x i : AINV st -> nth_N (a_nodes st) i = Some x -> vnode (hp (a_al st)) x.
Proof.
  intros Hi E. pose proof (ai_nodes _ Hi) as H. rewrite Forall_forall in H. apply H.
  eapply nth_N_In; eauto.
Qed.

Lemma simr_step fx st rs o : SIM st rs -> wf_op2 o ->
  a_dead (fst (a_step fx st o)) = false -> a_f2 (fst (a_step fx st o)) = false ->
  step_ok fx o (snd (a_step fx st o)) ->
  SIMR (fst (a_step fx st o)) (fst (r_step rs o)).
Proof.
  intros HSIM Hwf. pose proof HSIM as [Hi HS].
  unfold a_step, r_step. rewrite (ai_live _ Hi), (sr_live _ _ HS).
  pose proof (ai_ok _ Hi) as Hok. pose proof (ai_cps _ Hi) as Hcps.
  destruct (simr_eqs _ _ HS) as (E1 & E2 & E3 & E4).
  pose proof (sr_nodes _ _ HS) as HN. pose proof (sr_cps _ _ HS) as HC.
  destruct o; cbn [a_step_live r_step_live wf_op2] in *.
  - (* new_atom *) intros Hd _ _. apply simr_new_atom; assumption.
  - (* new_small_number *) intros Hd _ _. destruct (NODE_PTR_IDX_MASK <? v) eqn:E.
    + unfold new_small_number in Hd. rewrite E in Hd. discriminate.
    + unfold r_new_small_number.
      replace (R_SMALL_LIMIT <=? v) with false by (unfold R_SMALL_LIMIT, NODE_PTR_IDX_MASK in *; lia).
      apply simr_new_small; [assumption|lia|assumption].
  - (* new_u64 *) intros Hd _ _. unfold new_u64 in *. rewrite u64_bytes_spec in * by exact Hwf.
    apply simr_new_atom; [assumption|apply bytes_of_int_wf|assumption].
  - intros Hd _ _. unfold new_i64 in *. rewrite i64_bytes_spec in * by exact Hwf.
    apply simr_new_atom; [assumption|apply bytes_of_int_wf|assumption].
  - intros Hd _ _. apply simr_new_number; assumption.
  - intros Hd _ _. apply simr_new_number; assumption.
  - (* new_pair *)
    pose proof (forall2_nth _ _ _ HN i) as Ni. pose proof (forall2_nth _ _ _ HN j) as Nj.
    destruct (nth_N (a_nodes st) i) as [x|] eqn:Ex, (nth_N (r_nodes rs) i) as [tx|]; try contradiction; [|intros; exact HS].
    destruct (nth_N (a_nodes st) j) as [y|] eqn:Ey, (nth_N (r_nodes rs) j) as [ty|]; try contradiction; [|intros; exact HS].
    pose proof (new_pair_spec (a_al st) x y Hok (nodes_vnode _ _ _ Hi Ex) (nodes_vnode _ _ _ Hi Ey)) as S.
    unfold a_ret_node, r_new_pair. destruct (new_pair (a_al st) x y) as [[al n]|e].
    + destruct S as (S1 & S2 & S3 & S4 & S5 & S6 & (B0 & B1 & B2 & B3)). intros _ _ _.
      replace (R_MAX_PAIRS <=? r_pairs (r_st rs)) with false by (unfold R_MAX_PAIRS, MAX_NUM_PAIRS in *; lia).
      cbn [r_ret_node fst]. apply simr_alloc; try assumption; [| |reflexivity].
      * subst n. destruct (wf_pairs _ (aok_wf _ S2) _ _ _ S6) as [V1 V2].
        unfold den. apply (denote_pair _ _ x y tx ty S6); [eapply denote_ext; eauto|eapply denote_ext; eauto|exact V1|exact V2].
      * unfold counts, r_counts, r_bump. cbn [r_atoms r_pairs r_heap]. f_equal; [f_equal|]; lia.
    + intros Hd _ _. destruct (a_fail_live _ _ Hd) as [Hp ->]. destruct S as [-> S].
      replace (R_MAX_PAIRS <=? r_pairs (r_st rs)) with true by (unfold R_MAX_PAIRS, MAX_NUM_PAIRS in *; lia).
      exact HS.
  - (* new_substr *)
    pose proof (forall2_nth _ _ _ HN i) as Ni.
    destruct (nth_N (a_nodes st) i) as [x|] eqn:Ex, (nth_N (r_nodes rs) i) as [tx|]; try contradiction; [|intros; exact HS].
    pose proof (nodes_vnode _ _ _ Hi Ex) as Hx. unfold r_new_substr, r_atoms_full.
    destruct tx as [b|tl tr].
    + pose proof (new_substr_spec fx (a_al st) x b s e Hok Hx Ni) as S.
      destruct (new_substr_gen fx (a_al st) x s e) as [[[al n] path]|er].
      * cbn [fst snd a_f2]. intros _ Hf2 _. destruct S as (S1 & S2 & S3 & S).
        replace (r_atoms (r_st rs) =? R_MAX_ATOMS) with false by (unfold R_MAX_ATOMS, MAX_NUM_ATOMS in *; lia).
        replace (blen b <? s) with false by lia. replace (blen b <? e) with false by lia.
        replace (e <? s) with false by lia. cbn [r_ret_node fst].
        assert (S' : ext (hp (a_al st)) (hp al) /\ vnode (hp al) n /\ denote (hp al) n = Some (Atom (sub_bytes b s e)) /\
                     AOK al /\ bump (a_al st) al 1 0 0).
        { destruct path; [exact S|exact S|]. rewrite orb_true_r in Hf2. discriminate. }
        destruct S' as (T1 & T2 & T3 & T4 & (B0 & B1 & B2 & B3)).
        apply simr_alloc; try assumption; [|reflexivity].
        unfold counts, r_counts, r_bump. cbn [r_atoms r_pairs r_heap]. f_equal; [f_equal|]; lia.
      * intros Hd _ Hex. cbn [snd] in Hex. destruct (a_fail_live _ _ Hd) as [Hp Hst].
        unfold a_fail in Hex. rewrite Hp in Hex. cbn [snd] in Hex. rewrite Hst.
        destruct S as [[-> S]|(S0 & [[-> S]|[[-> S]|[[-> S]|(-> & Sfx & S1 & S2)]]])].
        -- replace (r_atoms (r_st rs) =? R_MAX_ATOMS) with true by (unfold R_MAX_ATOMS, MAX_NUM_ATOMS in *; lia).
           exact HS.
        -- replace (r_atoms (r_st rs) =? R_MAX_ATOMS) with false by (unfold R_MAX_ATOMS, MAX_NUM_ATOMS in *; lia).
           replace (blen b <? s) with true by lia. exact HS.
        -- replace (r_atoms (r_st rs) =? R_MAX_ATOMS) with false by (unfold R_MAX_ATOMS, MAX_NUM_ATOMS in *; lia).
           replace (blen b <? s) with false by lia. replace (blen b <? e) with true by lia. exact HS.
        -- replace (r_atoms (r_st rs) =? R_MAX_ATOMS) with false by (unfold R_MAX_ATOMS, MAX_NUM_ATOMS in *; lia).
           destruct (blen b <? s); [exact HS|]. replace (blen b <? e) with false by lia.
           replace (e <? s) with true by lia. exact HS.
        -- exfalso. destruct Hex as [Hex|Hex]; [congruence|apply Hex; reflexivity].
    + destruct (den_cons_pair _ _ _ _ Ni) as [k ->].
      destruct (substr_pair_err fx (a_al st) k s e) as (er & -> & Hp). intros _ _ _.
      unfold a_fail. rewrite Hp. cbn [fst].
      destruct (r_atoms (r_st rs) =? R_MAX_ATOMS); exact HS.
  - (* new_concat *)
    pose proof (forall2_get_all _ _ _ HN is) as Ni.
    destruct (get_all (a_nodes st) is) as [xs|] eqn:Ex, (get_all (r_nodes rs) is) as [ts|]; try contradiction; [|intros; exact HS].
    intros Hd _ _. apply simr_new_concat; try assumption.
    eapply get_all_Forall; [|exact Ex]. exact (ai_nodes _ Hi).
  - (* add_ghost_atom *)
    pose proof (add_ghost_atom_spec (a_al st) n Hok) as S. unfold a_ret_unit, r_add_ghost_atom.
    destruct (add_ghost_atom (a_al st) n) as [al|e].
    + destruct S as (S1 & S2 & S3 & (B0 & B1 & B2 & B3)). intros _ _ _.
      replace (R_MAX_ATOMS <? r_atoms (r_st rs) + n) with false by (unfold R_MAX_ATOMS, MAX_NUM_ATOMS in *; lia).
      cbn [r_ret_unit fst]. apply simr_ghost; try assumption; [|reflexivity].
      unfold counts, r_counts, r_bump. cbn [r_atoms r_pairs r_heap]. f_equal; [f_equal|]; lia.
    + intros Hd _ _. destruct (a_fail_live _ _ Hd) as [Hp ->]. destruct S as [-> S].
      replace (R_MAX_ATOMS <? r_atoms (r_st rs) + n) with true by (unfold R_MAX_ATOMS, MAX_NUM_ATOMS in *; lia).
      exact HS.
  - pose proof (add_ghost_pair_spec (a_al st) n Hok) as S. unfold a_ret_unit, r_add_ghost_pair.
    destruct (add_ghost_pair (a_al st) n) as [al|e].
    + destruct S as (S1 & S2 & S3 & (B0 & B1 & B2 & B3)). intros _ _ _.
      replace (R_MAX_PAIRS <? r_pairs (r_st rs) + n) with false by (unfold R_MAX_PAIRS, MAX_NUM_PAIRS in *; lia).
      cbn [r_ret_unit fst]. apply simr_ghost; try assumption; [|reflexivity].
      unfold counts, r_counts, r_bump. cbn [r_atoms r_pairs r_heap]. f_equal; [f_equal|]; lia.
    + intros Hd _ _. destruct (a_fail_live _ _ Hd) as [Hp ->]. destruct S as [-> S].
      replace (R_MAX_PAIRS <? r_pairs (r_st rs) + n) with true by (unfold R_MAX_PAIRS, MAX_NUM_PAIRS in *; lia).
      exact HS.
  - pose proof (remove_ghost_pair_spec (a_al st) n Hok) as S. unfold a_ret_unit.
    destruct (remove_ghost_pair (a_al st) n) as [al|e].
    + destruct S as (S1 & S2 & S3 & S4 & S5). intros _ _ _.
      replace (r_pairs (r_st rs) <? n) with false by lia.
      cbn [r_ret_unit fst]. apply simr_ghost; try assumption; [|reflexivity].
      rewrite S4. unfold r_counts. cbn [r_atoms r_pairs r_heap]. f_equal; [f_equal|]; lia.
    + intros Hd _ _. subst e. discriminate.
  - (* checkpoint *)
    intros _ _ _. cbn [fst]. destruct HS as [H1 H2 H3 H4 H5].
    split; cbn [a_al a_nodes a_cps r_st r_nodes r_cps r_dead]; try assumption; [reflexivity|].
    constructor; [|exact H5]. cbn [cp_sim]. split; [eapply forall2_nlen; eauto|].
    destruct (checkpoint_of_counts (a_al st) (aok_counts _ Hok)) as (C1 & _). rewrite C1. symmetry. exact H2.
  - intros _ _ _. cbn [fst]. destruct HS as [H1 H2 H3 H4 H5].
    split; cbn [a_al a_nodes a_cps r_st r_nodes r_cps r_dead]; try assumption; [reflexivity|].
    constructor; [|exact H5]. cbn [cp_sim]. eapply forall2_nlen; eauto.
  - (* restore_checkpoint *)
    pose proof (forall2_nth _ _ _ HC k) as Nk.
    destruct (nth_N (a_cps st) k) as [[c nl|c nl]|] eqn:Ek, (nth_N (r_cps rs) k) as [[cnt nl'|nl']|];
      try contradiction; try (intros; exact HS).
    destruct Nk as [-> ->].
    destruct (cps_ok_nth _ _ _ _ _ _ Hcps Ek) as (A & B & (C1 & C2 & C3) & D & E & F).
    cbn [cp_tcp cp_nl] in *.
    destruct (restore_spec (a_al st) c Hok A D C1 C2 C3) as (a1 & R1 & R2 & R3 & R4 & R5).
    rewrite R1. cbn [fst]. intros _ _ _.
    split; cbn [a_al a_nodes a_cps r_st r_nodes r_cps r_dead].
    + reflexivity.
    + rewrite R5. reflexivity.
    + rewrite R4. exact E4.
    + rewrite R2. apply den_trunc_all; [exact D|exact E|apply forall2_take; exact HN].
    + apply forall2_skipn. exact HC.
  - (* restore_transparent_checkpoint *)
    pose proof (forall2_nth _ _ _ HC k) as Nk.
    destruct (nth_N (a_cps st) k) as [[c nl|c nl]|] eqn:Ek, (nth_N (r_cps rs) k) as [[cnt nl'|nl']|];
      try contradiction; try (intros; exact HS).
    cbn [cp_sim] in Nk. subst nl'.
    destruct (cps_ok_nth _ _ _ _ _ _ Hcps Ek) as (A & B & _ & D & E & F).
    cbn [cp_tcp cp_nl] in *.
    destruct (restore_t_spec (a_al st) c Hok A D) as (a1 & R1 & R2 & R3 & (B0 & B1 & B2 & B3) & _).
    rewrite R1. cbn [fst]. intros _ _ _.
    split; cbn [a_al a_nodes a_cps r_st r_nodes r_cps r_dead].
    + reflexivity.
    + unfold counts, r_counts. f_equal; [f_equal|]; lia.
    + rewrite B0. exact E4.
    + rewrite R2. apply den_trunc_all; [exact D|exact E|apply forall2_take; exact HN].
    + apply forall2_skipn. exact HC.
  - (* maybe_restore_with_node *)
    pose proof (forall2_nth _ _ _ HC k) as Nk. pose proof (forall2_nth _ _ _ HN i) as Ni.
    destruct (nth_N (a_cps st) k) as [[c nl|c nl]|] eqn:Ek, (nth_N (r_cps rs) k) as [[cnt nl'|nl']|];
      try contradiction; try (intros; exact HS).
    cbn [cp_sim] in Nk. subst nl'.
    destruct (nth_N (a_nodes st) i) as [x|] eqn:Ex, (nth_N (r_nodes rs) i) as [tx|]; try contradiction; [|intros; exact HS].
    pose proof (nodes_vnode _ _ _ Hi Ex) as Hx.
    destruct (cps_ok_nth _ _ _ _ _ _ Hcps Ek) as (A & B & _ & D & E & F).
    cbn [cp_tcp cp_nl] in *.
    pose proof (maybe_restore_spec (a_al st) c x Hok A D Hx) as S.
    destruct (maybe_restore_with_node (a_al st) c x) as [al' r]. cbn [fst snd] in S.
    assert (HT : Forall2 (den (trunc (hp (a_al st)) c)) (take_N nl (a_nodes st)) (take_N nl (r_nodes rs))).
    { apply den_trunc_all; [exact D|exact E|apply forall2_take; exact HN]. }
    destruct r as [[| n |]|er]; cbn [mr_post] in S.
    + destruct S as (S1 & S2 & (B0 & B1 & B2 & B3) & S4 & S5). cbn [fst]. intros _ _ _.
      split; cbn [a_al a_nodes a_cps r_st r_nodes r_cps r_dead].
      * reflexivity.
      * unfold counts, r_counts. f_equal; [f_equal|]; lia.
      * rewrite B0. exact E4.
      * apply Forall2_app; [rewrite S2; exact HT|constructor; [|constructor]]. unfold den. rewrite S5. exact Ni.
      * apply forall2_skipn. exact HC.
    + destruct S as (S1 & S2 & (B0 & B1 & B2 & B3) & S4 & S5). cbn [fst]. intros _ _ _.
      split; cbn [a_al a_nodes a_cps r_st r_nodes r_cps r_dead].
      * reflexivity.
      * unfold counts, r_counts. f_equal; [f_equal|]; lia.
      * rewrite B0. exact E4.
      * apply Forall2_app; [eapply den_ext_all; eauto|constructor; [|constructor]]. unfold den. rewrite S5. exact Ni.
      * apply forall2_skipn. exact HC.
    + subst al'. cbn [fst]. intros _ _ _. destruct HS as [H1 H2 H3 H4 H5].
      split; cbn [a_al a_nodes a_cps r_st r_nodes r_cps r_dead]; try assumption; [reflexivity| |].
      * apply Forall2_app; [apply forall2_take; exact HN|constructor; [exact Ni|constructor]].
      * apply forall2_skipn. exact HC.
    + destruct S as (-> & _). cbn [is_panic fst snd]. intros _ _ Hex. exfalso. apply Hex. reflexivity.
  - (* atom *)
    pose proof (forall2_nth _ _ _ HN i) as Ni.
    destruct (nth_N (a_nodes st) i) as [x|] eqn:Ex, (nth_N (r_nodes rs) i) as [tx|]; try contradiction; [|intros; exact HS].
    intros Hd _ _. pose proof Hd as Hd2. rewrite (a_ret_read_live _ _ Hd) in *.
    destruct tx as [b|l r]; [exact HS|]. destruct (den_cons_pair _ _ _ _ Ni) as [k ->]. discriminate.
  - pose proof (forall2_nth _ _ _ HN i) as Ni.
    destruct (nth_N (a_nodes st) i) as [x|] eqn:Ex, (nth_N (r_nodes rs) i) as [tx|]; try contradiction; [|intros; exact HS].
    intros Hd _ _. pose proof Hd as Hd2. rewrite (a_ret_read_live _ _ Hd) in *.
    destruct tx as [b|l r]; [exact HS|]. destruct (den_cons_pair _ _ _ _ Ni) as [k ->]. discriminate.
  - pose proof (forall2_nth _ _ _ HN i) as Ni. pose proof (forall2_nth _ _ _ HN j) as Nj.
    destruct (nth_N (a_nodes st) i) as [x|] eqn:Ex, (nth_N (r_nodes rs) i) as [tx|]; try contradiction; [|intros; exact HS].
    destruct (nth_N (a_nodes st) j) as [y|] eqn:Ey, (nth_N (r_nodes rs) j) as [ty|]; try contradiction; [|intros; exact HS].
    intros Hd _ _. pose proof Hd as Hd2. rewrite (a_ret_read_live _ _ Hd) in *.
    destruct tx as [b|l r].
    + destruct ty as [b2|l2 r2]; [exact HS|]. destruct (den_cons_pair _ _ _ _ Nj) as [k ->].
      destruct x; discriminate.
    + destruct (den_cons_pair _ _ _ _ Ni) as [k ->]. discriminate.
  - pose proof (forall2_nth _ _ _ HN i) as Ni.
    destruct (nth_N (a_nodes st) i) as [x|] eqn:Ex, (nth_N (r_nodes rs) i) as [tx|]; try contradiction; [|intros; exact HS].
    intros Hd _ _. rewrite (a_ret_read_live _ _ Hd). exact HS.
  - pose proof (forall2_nth _ _ _ HN i) as Ni.
    destruct (nth_N (a_nodes st) i) as [x|] eqn:Ex, (nth_N (r_nodes rs) i) as [tx|]; try contradiction; [|intros; exact HS].
    intros Hd _ _. pose proof Hd as Hd2. rewrite (a_ret_read_live _ _ Hd) in *.
    destruct tx as [b|l r]; [exact HS|]. destruct (den_cons_pair _ _ _ _ Ni) as [k ->]. discriminate.
  - pose proof (forall2_nth _ _ _ HN i) as Ni.
    destruct (nth_N (a_nodes st) i) as [x|] eqn:Ex, (nth_N (r_nodes rs) i) as [tx|]; try contradiction; [|intros; exact HS].
    intros Hd _ _. rewrite (a_ret_read_live _ _ Hd). destruct tx; exact HS.
  - pose proof (forall2_nth _ _ _ HN i) as Ni.
    destruct (nth_N (a_nodes st) i) as [x|] eqn:Ex, (nth_N (r_nodes rs) i) as [tx|]; try contradiction; [|intros; exact HS].
    intros Hd _ _. rewrite (a_ret_read_live _ _ Hd). destruct tx; exact HS.
Qed.

Theorem sim_step fx st rs o : SIM st rs -> wf_op2 o ->
  a_dead (fst (a_step fx st o)) = false -> a_f2 (fst (a_step fx st o)) = false ->
  step_ok fx o (snd (a_step fx st o)) ->
  SIM (fst (a_step fx st o)) (fst (r_step rs o)).
Proof.
  intros HS Hwf Hd Hf Hex. split.
  - exact (proj1 (ainv_step fx st o (sim_inv _ _ HS) (wf_op2_wf _ Hwf) Hd (or_intror Hf))).
  - apply simr_step; assumption.
Qed.

(* ------------------------------------------------------------------ whole histories *)

Theorem sim_run fx : forall h st rs, SIM st rs -> Forall wf_op2 h ->
  a_dead (fst (a_run fx st h)) = false -> a_f2 (fst (a_run fx st h)) = false -> clean_run fx st h ->
  SIM (fst (a_run fx st h)) (fst (r_run rs h)).
Proof.
  induction h as [|o r IH]; intros st rs HS Hwf; cbn [a_run r_run clean_run].
  - intros _ _ _. exact HS.
  - inversion Hwf as [|? ? Ho Hr]; subst.
    pose proof (sim_step fx st rs o HS Ho) as S. pose proof (a_run_dead fx r (fst (a_step fx st o))) as Dd.
    pose proof (a_run_f2 fx r (fst (a_step fx st o))) as Df.
    destruct (a_step fx st o) as [st1 ob]. destruct (r_step rs o) as [rs1 rob]. cbn [fst snd] in *.
    specialize (IH st1 rs1). destruct (a_run fx st1 r) as [st2 obs]. destruct (r_run rs1 r) as [rs2 robs].
    cbn [fst] in *. intros Hd Hf [Hc1 Hc2].
    assert (Hd1 : a_dead st1 = false).
    { destruct (a_dead st1) eqn:E; [|reflexivity]. rewrite (Dd eq_refl) in Hd. congruence. }
    assert (Hf1 : a_f2 st1 = false).
    { destruct (a_f2 st1) eqn:E; [|reflexivity]. rewrite (Df eq_refl) in Hf. discriminate. }
    apply IH; auto.
Qed.

Lemma sim_init limit st : 1 <= limit -> a_init limit = Ok st -> SIM st (r_init limit).
Proof.
  intros Hl H. destruct (a_init_inv _ _ Hl H) as [Hi HL]. split; [exact Hi|].
  unfold a_init in H. destruct (new_limited limit) as [al|e] eqn:E; [|discriminate].
  cbn [bind] in H. apply AllocOps.Ok_inj in H. subst st. cbn [a_al] in HL.
  split; cbn [a_al a_nodes a_cps r_init r_st r_nodes r_cps r_dead].
  - reflexivity.
  - rewrite (init_counts _ _ E). reflexivity.
  - exact HL.
  - constructor.
  - constructor.
Qed.

(* the whole-history theorem: from the initial states, after any history with arguments of the
   API's types in which the arena side does not panic, does not take the F2 branch and
   maybe_restore_with_node does not report "invalid atom byte range", the arena's three counts are
   the reference's (which is alive too), the heap limits agree and every live node denotes the
   reference's tree *)
Theorem history_counts fx limit h st : 1 <= limit -> Forall wf_op2 h ->
  a_final fx limit h = Some st -> a_dead st = false -> a_f2 st = false ->
  (forall st0, a_init limit = Ok st0 -> clean_run fx st0 h) ->
  a_counts st = rs_counts (r_final limit h) /\ r_dead (r_final limit h) = false /\
  heap_limit (a_al st) = r_limit (r_st (r_final limit h)) /\
  Forall2 (fun n t => denote (hp (a_al st)) n = Some t) (a_nodes st) (r_nodes (r_final limit h)).
Proof.
  intros Hl Hwf. unfold a_final, r_final. destruct (a_init limit) as [st0|e] eqn:E; [|discriminate].
  intros H Hd Hf Hc. apply AllocOps.Some_inj in H. subst st.
  pose proof (sim_run fx h st0 (r_init limit) (sim_init _ _ Hl E) Hwf Hd Hf (Hc st0 eq_refl)) as [_ [S1 S2 S3 S4 _]].
  unfold a_counts, rs_counts. auto.
Qed.

(* histories of the unrepaired code without maybe_restore_with_node are clean *)
Definition no_mr (o : op) : Prop := match o with OMaybeRestore _ _ => False | _ => True end.

Lemma clean_run_no_mr : forall h st, Forall no_mr h -> clean_run false st h.
Proof.
  induction h as [|o r IH]; intros st H; cbn [clean_run]; [exact I|].
  inversion H as [|? ? Ho Hr]; subst. split; [|apply IH; exact Hr].
  destruct o; cbn [step_ok no_mr] in *; auto.
Qed.

Corollary history_counts_no_mr limit h st : 1 <= limit -> Forall wf_op2 h -> Forall no_mr h ->
  a_final false limit h = Some st -> a_dead st = false -> a_f2 st = false ->
  a_counts st = rs_counts (r_final limit h).
Proof.
  intros Hl Hwf Hm H Hd Hf.
  apply (history_counts false limit h st Hl Hwf H Hd Hf). intros st0 _. apply clean_run_no_mr. exact Hm.
Qed.
