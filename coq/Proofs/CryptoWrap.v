(* C32 (a): the wrappers. Each cryptographic operator of Model/OpsCrypto.v is characterised, for
   ALL argument trees, flag sets, budgets and ALL primitives P, as the composition of the
   primitive with the operator's argument rules: exactly which argument lists succeed, what the
   value and cost then are (in terms of the primitive), and which error kinds can occur. *)
From Coq Require Import Lia ZifyBool ZifyN ZifyNat.
From Clvm Require Import Model.OpsCrypto Proofs.BytesLemmas Proofs.IntEncBasics.
Open Scope N_scope.
Arguments N.add : simpl never.
Arguments N.sub : simpl never.
Arguments N.mul : simpl never.
Arguments N.eqb : simpl never.
Arguments N.ltb : simpl never.
Arguments N.leb : simpl never.
Arguments N.pow : simpl never.
Arguments Z.modulo : simpl never.

Lemma Ok_inj {A} (x y : A) : Ok x = Ok y -> x = y.
Proof. intros H. inversion H. reflexivity. Qed.

(* ---------------- mod_group_order ---------------- *)

Lemma group_order_pos : (0 < GROUP_ORDER)%Z.
Proof. reflexivity. Qed.

Lemma mod_group_order_spec z : mod_group_order z = (z mod GROUP_ORDER)%Z.
Proof.
  unfold mod_group_order.
  pose proof (Z.mod_pos_bound z GROUP_ORDER group_order_pos) as Hb.
  destruct (Z.ltb_spec (z mod GROUP_ORDER) 0); [lia|reflexivity].
Qed.

Lemma mod_group_order_range z : (0 <= mod_group_order z < GROUP_ORDER)%Z.
Proof. rewrite mod_group_order_spec. apply Z.mod_pos_bound, group_order_pos. Qed.

Lemma mod_group_order_congr z k : mod_group_order (z + k * GROUP_ORDER) = mod_group_order z.
Proof. rewrite !mod_group_order_spec. apply Z.mod_add. pose proof group_order_pos. lia. Qed.

(* ---------------- check_cost ---------------- *)

Lemma check_cost_ok c m : c <= m -> check_cost c m = Ok tt.
Proof. intros H. unfold check_cost. destruct (N.ltb_spec m c); [lia|reflexivity]. Qed.

Lemma check_cost_err c m : m < c -> check_cost c m = Err CostExceeded.
Proof. intros H. unfold check_cost. destruct (N.ltb_spec m c); [reflexivity|lia]. Qed.

Lemma check_cost_cases c m :
  (c <= m /\ check_cost c m = Ok tt) \/ (m < c /\ check_cost c m = Err CostExceeded).
Proof. destruct (N.le_gt_cases c m); [left|right]; auto using check_cost_ok, check_cost_err. Qed.

(* ---------------- coinid ---------------- *)

Lemma be_value_cons x r : be_value (x :: r) = x * 256 ^ N.of_nat (length r) + be_value r.
Proof. unfold be_value at 1. cbn [be_acc]. rewrite be_acc_shift. lia. Qed.

Lemma blen_cons x (r : bytes) : blen (x :: r) = 1 + blen r.
Proof. unfold blen. cbn [length]. lia. Qed.

(* the amount rule accepts exactly the canonical encodings of the integers 0 <= v < 2^64 *)
Lemma coinid_amount_ok_spec b : wf_bytes b = true ->
  coinid_amount_ok b = true <->
  (canonical_int b = true /\ (0 <= int_of_bytes b < 18446744073709551616)%Z).
Proof.
  intros Hwf. destruct b as [|a0 [|a1 r]].
  - cbn. split; [intros _; split; [reflexivity|lia]|reflexivity].
  - cbn [wf_bytes forallb] in Hwf. unfold wf_byte in Hwf.
    assert (Ha : a0 < 256) by lia.
    rewrite int_of_bytes_eq. unfold coinid_amount_ok, canonical_int.
    rewrite be_value_cons. cbn [length bytes_eqb be_value be_acc].
    rewrite !blen_cons. change (blen []) with 0.
    destruct (N.leb_spec 128 a0) as [H1|H1].
    + split; [discriminate|]. intros [_ H]. lia.
    + destruct (N.eqb_spec a0 0) as [H2|H2].
      * subst a0. cbn. split; [discriminate|]. intros [H _]. discriminate.
      * rewrite andb_false_r. cbn [orb negb].
        replace (9 <? 1 + 0) with false by lia. replace (1 + 0 =? 9) with false by lia.
        cbn. split; [intros _; split; [reflexivity|lia]|reflexivity].
  - cbn [wf_bytes forallb] in Hwf. unfold wf_byte in Hwf.
    apply andb_prop in Hwf. destruct Hwf as [Ha0 Hwf]. apply andb_prop in Hwf. destruct Hwf as [Ha1 Hr].
    pose proof (be_value_bound r Hr) as Hb.
    rewrite int_of_bytes_eq. unfold coinid_amount_ok, canonical_int.
    rewrite !be_value_cons. cbn [length bytes_eqb]. rewrite andb_false_r. cbn [orb].
    rewrite !blen_cons. unfold blen.
    rewrite !Nat2N.inj_succ, !N.pow_succ_r'.
    set (n := N.of_nat (length r)) in *. set (p := 256 ^ n) in *. set (v := be_value r) in *.
    assert (Hp : 1 <= p) by (unfold p; change 1 with (256 ^ 0); apply N.pow_le_mono_r; lia).
    assert (Hp8 : 8 <= n -> 18446744073709551616 <= p).
    { intros Hn. unfold p. change 18446744073709551616 with (256 ^ 8). apply N.pow_le_mono_r; lia. }
    assert (Hp7 : n <= 7 -> 256 * p <= 18446744073709551616).
    { intros Hn. unfold p. change 18446744073709551616 with (256 * 256 ^ 7).
      apply N.mul_le_mono_l. apply N.pow_le_mono_r; lia. }
    assert (Hp6 : n <= 6 -> 256 * (256 * p) <= 18446744073709551616).
    { intros Hn. unfold p. change 18446744073709551616 with (256 * (256 * 256 ^ 6)).
      apply N.mul_le_mono_l, N.mul_le_mono_l. apply N.pow_le_mono_r; lia. }
    replace (1 <? 1 + (1 + n)) with true by lia. cbn [andb].
    destruct (N.leb_spec 128 a0) as [H1|H1].
    + split; [discriminate|]. intros [_ H]. nia.
    + replace (a0 =? 255) with false by lia. cbn [andb orb].
      destruct (N.eqb_spec a0 0) as [H2|H2]; cbn [andb negb].
      * subst a0. destruct (N.ltb_spec a1 128) as [H3|H3]; cbn [negb].
        -- split; [discriminate|]. intros [H _]. discriminate.
        -- rewrite ?andb_false_r, ?orb_false_r.
           destruct (N.ltb_spec 9 (1 + (1 + n))) as [H4|H4]; cbn [orb].
           ++ split; [discriminate|]. intros [_ H]. assert (8 <= n) by lia. specialize (Hp8 H0). nia.
           ++ split; [intros _|reflexivity]. split; [reflexivity|]. assert (n <= 7) by lia.
              specialize (Hp7 H). nia.
      * rewrite orb_false_r. rewrite andb_true_r.
        destruct (N.ltb_spec 9 (1 + (1 + n))) as [H4|H4]; cbn [orb].
        -- split; [discriminate|]. intros [_ H]. assert (8 <= n) by lia. specialize (Hp8 H0). nia.
        -- destruct (N.eqb_spec (1 + (1 + n)) 9) as [H5|H5]; cbn.
           ++ split; [discriminate|]. intros [_ H]. assert (n = 7) by lia.
              assert (Hq : p = 72057594037927936) by (unfold p; rewrite H0; reflexivity). nia.
           ++ split; [intros _|reflexivity]. split; [reflexivity|]. assert (n <= 6) by lia.
              specialize (Hp6 H). nia.
Qed.

Definition coinid_cost (f : flagset) : N := if f_new_cost_model f then NEW_COINID_COST else COINID_COST.

Theorem wrap_coinid H f a m r : wf_sexp a = true ->
  op_coinid H f a m = Ok r <->
  exists parent puzzle amount t,
    a = Cons (Atom parent) (Cons (Atom puzzle) (Cons (Atom amount) (Atom t))) /\
    blen parent = 32 /\ blen puzzle = 32 /\
    canonical_int amount = true /\ (0 <= int_of_bytes amount < 18446744073709551616)%Z /\
    let h := H (parent ++ puzzle ++ amount) in
    r = (coinid_cost f + blen h * MALLOC_COST_PER_BYTE, Atom h).
Proof.
  intros Hwf. unfold op_coinid, coinid_cost. split.
  - intros Hop.
    destruct a as [|p0 [|p1 [|p2 [t|]]]]; try discriminate Hop.
    cbn [get_args3 bind] in Hop.
    destruct p0 as [parent|]; [|discriminate Hop]. cbn [atom_of bind] in Hop.
    destruct (N.eqb_spec (blen parent) 32) as [E1|E1]; [|discriminate Hop]. cbn [negb] in Hop.
    destruct p1 as [puzzle|]; [|discriminate Hop]. cbn [atom_of bind] in Hop.
    destruct (N.eqb_spec (blen puzzle) 32) as [E2|E2]; [|discriminate Hop]. cbn [negb] in Hop.
    destruct p2 as [amount|]; [|discriminate Hop]. cbn [atom_of bind] in Hop.
    destruct (coinid_amount_ok amount) eqn:E3; [|discriminate Hop]. cbn [negb] in Hop.
    cbn [wf_sexp] in Hwf. rewrite !andb_true_iff in Hwf. destruct Hwf as (_ & _ & Hwa & _).
    apply coinid_amount_ok_spec in E3; [|exact Hwa]. destruct E3 as [E3 E4].
    exists parent, puzzle, amount, t. repeat split; try assumption; try lia.
    unfold atom_and_cost in Hop. apply Ok_inj in Hop. symmetry. exact Hop.
  - intros (parent & puzzle & amount & t & -> & E1 & E2 & E3 & E4 & ->).
    cbn [wf_sexp] in Hwf. rewrite !andb_true_iff in Hwf. destruct Hwf as (_ & _ & Hwa & _).
    cbn [get_args3 bind atom_of]. rewrite E1, E2. cbn [N.eqb negb].
    replace (32 =? 32) with true by reflexivity. cbn [negb].
    assert (E5 : coinid_amount_ok amount = true) by (apply coinid_amount_ok_spec; [exact Hwa|split; [exact E3|lia]]).
    rewrite E5. cbn [negb]. reflexivity.
Qed.

Theorem wrap_coinid_err H f a m e : op_coinid H f a m = Err e -> e = InvalidOpArg 0.
Proof.
  unfold op_coinid, bad_arg. intros Hop.
  destruct a as [|p0 [|p1 [|p2 [t|]]]]; cbn [get_args3 bind] in Hop; try (inversion Hop; reflexivity).
  destruct p0 as [parent|]; cbn [atom_of bind] in Hop; [|inversion Hop; reflexivity].
  destruct (negb (blen parent =? 32)); [inversion Hop; reflexivity|].
  destruct p1 as [puzzle|]; cbn [atom_of bind] in Hop; [|inversion Hop; reflexivity].
  destruct (negb (blen puzzle =? 32)); [inversion Hop; reflexivity|].
  destruct p2 as [amount|]; cbn [atom_of bind] in Hop; [|inversion Hop; reflexivity].
  destruct (negb (coinid_amount_ok amount)); [inversion Hop; reflexivity|].
  unfold atom_and_cost in Hop. discriminate Hop.
Qed.

(* ---------------- pubkey_for_exp ---------------- *)

Definition pubkey_cost (b : bytes) : N := PUBKEY_BASE_COST + blen b * PUBKEY_COST_PER_BYTE.

Theorem wrap_pubkey_for_exp P f a m r :
  op_pubkey_for_exp P f a m = Ok r <->
  exists b t,
    a = Cons (Atom b) (Atom t) /\ pubkey_cost b <= m /\
    r = (pubkey_cost b + 48 * MALLOC_COST_PER_BYTE,
         Atom (p_g1_gen_mul P (int_of_bytes b mod GROUP_ORDER)%Z)).
Proof.
  unfold op_pubkey_for_exp, pubkey_cost. split.
  - intros Hop. destruct a as [|p0 [t|]]; try discriminate Hop. cbn [get_args1 bind] in Hop.
    destruct p0 as [b|]; [|discriminate Hop]. cbn [int_atom bind] in Hop.
    destruct (check_cost_cases (PUBKEY_BASE_COST + blen b * PUBKEY_COST_PER_BYTE) m) as [[Hc E]|[Hc E]];
      rewrite E in Hop; cbn [bind] in Hop; [|discriminate Hop].
    exists b, t. split; [reflexivity|]. split; [exact Hc|].
    apply Ok_inj in Hop. rewrite mod_group_order_spec in Hop. symmetry. exact Hop.
  - intros (b & t & -> & Hc & ->). cbn [get_args1 bind int_atom].
    rewrite (check_cost_ok _ _ Hc). cbn [bind]. rewrite mod_group_order_spec. reflexivity.
Qed.

Theorem wrap_pubkey_for_exp_err P f a m e :
  op_pubkey_for_exp P f a m = Err e -> e = InvalidOpArg 0 \/ e = CostExceeded.
Proof.
  unfold op_pubkey_for_exp, bad_arg. intros Hop.
  destruct a as [|p0 [t|]]; cbn [get_args1 bind] in Hop; try (inversion Hop; auto).
  destruct p0 as [b|]; cbn [int_atom bind] in Hop; [|inversion Hop; auto].
  destruct (check_cost_cases (PUBKEY_BASE_COST + blen b * PUBKEY_COST_PER_BYTE) m) as [[Hc E]|[Hc E]];
    rewrite E in Hop; cbn [bind] in Hop; [discriminate Hop|inversion Hop; auto].
Qed.
