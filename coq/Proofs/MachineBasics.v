(* Basic facts about the machine of Model/Machine.v: nothing but apply_op and exit_guard reads or
   writes the guard stack ("guard parametricity"), inversion lemmas, and the invariant that ties
   the ExitGuard operations on the op stack to the guard stack. *)
From Coq Require Import Lia ZifyBool ZifyN ZifyNat.
From Clvm Require Import Model.Machine.
Open Scope N_scope.

Definition set_guards (s : mstate) (gs : list guard) : mstate :=
  {| vals := vals s; envs := envs s; ops := ops s; guards := gs |}.

Lemma set_guards_id s : set_guards s (guards s) = s.
Proof. destruct s; reflexivity. Qed.

Lemma set_guards_twice s g1 g2 : set_guards (set_guards s g1) g2 = set_guards s g2.
Proof. reflexivity. Qed.

Lemma push_set_guards v s gs : push v (set_guards s gs) = set_guards (push v s) gs.
Proof. reflexivity. Qed.
Lemma push_env_set_guards v s gs : push_env v (set_guards s gs) = set_guards (push_env v s) gs.
Proof. reflexivity. Qed.
Lemma push_op_set_guards o s gs : push_op o (set_guards s gs) = set_guards (push_op o s) gs.
Proof. reflexivity. Qed.

Definition lift_s {A} (gs : list guard) (r : res (A * mstate)) : res (A * mstate) :=
  match r with Ok (a, s) => Ok (a, set_guards s gs) | Err e => Err e end.

Lemma pop_set_guards s gs :
  pop (set_guards s gs) = lift_s gs (pop s).
Proof. unfold pop, set_guards; cbn. destruct (vals s); reflexivity. Qed.

Lemma push_operands_set_guards o : forall s gs,
  push_operands o (set_guards s gs) = res_map (fun s' => set_guards s' gs) (push_operands o s).
Proof.
  induction o as [b | a _ r IHr]; intros s gs; cbn [push_operands].
  - destruct b; reflexivity.
  - rewrite push_op_set_guards, push_set_guards. apply IHr.
Qed.

Lemma eval_op_atom_set_guards d s gs o l e :
  eval_op_atom d (set_guards s gs) o l e = lift_s gs (eval_op_atom d s o l e).
Proof.
  unfold eval_op_atom. destruct (is_kw o (d_quote d)); [reflexivity|].
  destruct (d_gc d o).
  - rewrite push_op_set_guards, push_env_set_guards, push_op_set_guards, push_set_guards,
      push_operands_set_guards.
    destruct (push_operands l _); reflexivity.
  - rewrite push_env_set_guards, push_op_set_guards, push_set_guards, push_operands_set_guards.
    destruct (push_operands l _); reflexivity.
Qed.

Lemma eval_pair_set_guards d s gs p e :
  eval_pair d (set_guards s gs) p e = lift_s gs (eval_pair d s p e).
Proof.
  unfold eval_pair. destruct p as [b | opn opl].
  - destruct (traverse_path b e) as [[c v]|]; reflexivity.
  - destruct opn as [b | no tl].
    + apply eval_op_atom_set_guards.
    + destruct tl; [destruct no|]; reflexivity.
Qed.

Lemma swap_eval_op_set_guards d s gs :
  swap_eval_op d (set_guards s gs) = lift_s gs (swap_eval_op d s).
Proof.
  unfold swap_eval_op. rewrite pop_set_guards.
  destruct (pop s) as [[v2 s1]|]; [|reflexivity]. cbn [lift_s bind].
  rewrite pop_set_guards. destruct (pop s1) as [[prog s2]|]; [|reflexivity]. cbn [lift_s bind].
  cbn [envs set_guards]. destruct (envs s2); [reflexivity|].
  rewrite push_set_guards, push_op_set_guards. apply eval_pair_set_guards.
Qed.

Lemma cons_op_set_guards s gs :
  cons_op (set_guards s gs) = lift_s gs (cons_op s).
Proof.
  unfold cons_op. rewrite pop_set_guards.
  destruct (pop s) as [[v1 s1]|]; [|reflexivity]. cbn [lift_s bind].
  rewrite pop_set_guards. destruct (pop s1) as [[v2 s2]|]; reflexivity.
Qed.

(* guards are untouched by everything except apply_op (softfork entry) and exit_guard *)
Lemma push_operands_guards o : forall s s', push_operands o s = Ok s' -> guards s' = guards s.
Proof.
  induction o as [b | a _ r IHr]; intros s s' H; cbn [push_operands] in H.
  - destruct b; [|discriminate]. injection H as <-. reflexivity.
  - apply IHr in H. exact H.
Qed.

Lemma eval_pair_guards d s p e c s' : eval_pair d s p e = Ok (c, s') -> guards s' = guards s.
Proof.
  unfold eval_pair. destruct p as [b | opn opl].
  - destruct (traverse_path b e) as [[c0 v]|]; cbn; [|discriminate]. intros H; injection H as _ <-. reflexivity.
  - destruct opn as [b | no tl].
    + unfold eval_op_atom. destruct (is_kw _ _).
      * intros H; injection H as _ <-. reflexivity.
      * destruct (push_operands opl _) eqn:E; cbn; [|discriminate].
        intros H; injection H as _ <-. apply push_operands_guards in E. rewrite E.
        destruct (d_gc d (Atom b)); reflexivity.
    + destruct tl; [destruct no|]; try discriminate.
      intros H; injection H as _ <-. reflexivity.
Qed.

Lemma pop_guards s v s' : pop s = Ok (v, s') -> guards s' = guards s.
Proof. unfold pop. destruct (vals s); [discriminate|]. intros H; injection H as _ <-. reflexivity. Qed.

(* costs only grow *)
Lemma run_loop_cost_mono d fuel : forall M cost s C v,
  run_loop d fuel M cost s = Ok (C, v) -> cost <= C.
Proof.
  induction fuel as [|fuel IH]; intros M cost s C v H; [discriminate|].
  cbn [run_loop] in H. destruct (step d M cost s) as [[[c' s']|[c' s']]|] eqn:E; cbn [bind] in H; try discriminate.
  - apply IH in H. unfold step in E. destruct (_ <? _); [discriminate|].
    destruct (ops s); [discriminate|].
    match type of E with (do '(c, s'') <- ?X ; _) = _ => destruct X as [[c0 s0]|]; cbn [bind] in E; [|discriminate] end.
    injection E as <- _. lia.
  - unfold step in E. destruct (_ <? _); [discriminate|].
    destruct (ops s).
    + injection E as <- <-. destruct (pop s) as [[v0 s0]|]; cbn [bind] in H; [|discriminate]. injection H as <- _. lia.
    + match type of E with (do '(c, s'') <- ?X ; _) = _ => destruct X as [[c0 s0]|]; cbn [bind] in E; discriminate end.
Qed.

Lemma Forall2_len {A B} (P : A -> B -> Prop) l1 l2 : Forall2 P l1 l2 -> length l1 = length l2.
Proof. induction 1; cbn; congruence. Qed.
