(* C17 assembled: round trip, never grows, canonical, idempotent; and a hash function for which
   the tree-hash injectivity premise holds (so the premise is satisfiable). *)
From Clvm Require Import Model.BackRef Model.ReadCache Model.SerBR Proofs.BytesLemmas Proofs.ClassicAtoms
  Proofs.ClassicProofs Proofs.ClassicWriter Proofs.BackRefBasics Proofs.BackRefMain Proofs.BackRefEmit
  Proofs.ReadCacheProofs Proofs.SerBRProofs.
From Coq Require Import Lia ZifyBool ZifyN ZifyNat.
Open Scope N_scope.
Arguments N.add : simpl never.
Arguments N.sub : simpl never.
Arguments N.mul : simpl never.
Arguments N.eqb : simpl never.
Arguments N.ltb : simpl never.
Arguments N.leb : simpl never.

(* ------------------------------------------------------------------ canonical form *)
Lemma ser_atom_nonempty b e : ser_atom b = Some e -> (1 <= length e)%nat.
Proof.
  unfold ser_atom. destruct (atom_prefix _ _) as [p|] eqn:Ep; [|discriminate]. intros Hs. injection Hs as <-.
  rewrite app_length. unfold atom_prefix in Ep. destruct b; [|cbn; lia]. cbn in Ep. injection Ep as <-. cbn. lia.
Qed.

Lemma canonical_loop_enc : forall P stk t bs, enc P stk t bs ->
  exists n, (n <= 2 * length bs)%nat /\
    forall k counter rest, canonical_loop (n + k) (counter + 1) (bs ++ rest) = canonical_loop k counter rest.
Proof.
  intros P stk t bs He. induction He as [stk b e Hw Hs|stk l r el er _ IHl _ IHr|stk t path pe c Hw Hs Ht HP].
  - exists 1%nat. split; [pose proof (ser_atom_nonempty b e Hs); lia|].
    intros k counter rest. destruct (canon_atom_ser b e rest Hw Hs) as (first & tl & -> & Hlt & Hc).
    cbn [Nat.add canonical_loop]. destruct (N.eqb_spec (counter + 1) 0); [lia|].
    destruct (N.eqb_spec first 255); [lia|]. destruct (N.eqb_spec first 254); [lia|].
    rewrite Hc. replace (counter + 1 - 1) with counter by lia. reflexivity.
  - destruct IHl as (n1 & B1 & H1). destruct IHr as (n2 & B2 & H2).
    exists (S (n1 + n2)). split; [cbn [length]; rewrite app_length; lia|].
    intros k counter rest. cbn [Nat.add canonical_loop app]. destruct (N.eqb_spec (counter + 1) 0); [lia|].
    rewrite N.eqb_refl. replace (counter + 1 - 1 + 2) with ((counter + 1) + 1) by lia.
    rewrite <- app_assoc, <- Nat.add_assoc, H1, H2. reflexivity.
  - exists 1%nat. split; [cbn [length]; lia|].
    intros k counter rest. destruct (canon_atom_ser path pe rest Hw Hs) as (first & tl & Heq & Hlt & Hc).
    cbn [Nat.add canonical_loop app]. destruct (N.eqb_spec (counter + 1) 0); [lia|].
    change (254 =? 255) with false. change (254 =? 254) with true. cbv iota.
    rewrite Heq, Hc. replace (counter + 1 - 1) with counter by lia. reflexivity.
Qed.

Theorem enc_canonical : forall P t bs, enc P [] t bs -> is_canonical_serialization bs = BTrue.
Proof.
  intros P t bs He. unfold is_canonical_serialization, de_fuel.
  destruct (canonical_loop_enc P [] t bs He) as (n & B & Hn).
  replace (2 * length bs + 2)%nat with (n + (2 * length bs + 2 - n))%nat by lia.
  rewrite <- (app_nil_r bs) at 2. change 1 with (0 + 1). rewrite Hn.
  destruct (2 * length bs + 2 - n)%nat eqn:E; [lia|]. reflexivity.
Qed.

(* ------------------------------------------------------------------ serializer level *)
Section Main.
  Variable H : bytes -> bytes.
  Hypothesis th_inj : forall t1 t2, treehash H t1 = treehash H t2 -> t1 = t2.

  Theorem ser_br_roundtrip : forall t bs, wf_sexp t = true -> node_to_bytes_backrefs H t = Ok bs ->
    de_br_spec bs = Ok (t, []) /\
    snd (node_from_stream_backrefs bs) = Ok (t, []) /\
    snd (node_from_stream_backrefs_old bs) = Ok (t, []) /\
    serialized_length_from_bytes bs = Ok (blen bs).
  Proof.
    intros t bs Hwf Hrun. pose proof (ser_br_enc H th_inj t bs Hwf Hrun) as He.
    pose proof (emit_ok _ t bs [] He) as Hem. rewrite app_nil_r in Hem. exact Hem.
  Qed.

  Theorem ser_br_never_grows : forall t bs e, wf_sexp t = true -> node_to_bytes_backrefs H t = Ok bs ->
    ser t = Some e -> blen e < 4294967291 -> blen bs <= blen e.
  Proof.
    intros t bs e Hwf Hrun Hs Hb.
    exact (enc_P_loop_short [] t bs (ser_br_enc H th_inj t bs Hwf Hrun) e Hs Hb).
  Qed.

  Theorem ser_br_canonical : forall t bs, wf_sexp t = true -> node_to_bytes_backrefs H t = Ok bs ->
    is_canonical_serialization bs = BTrue.
  Proof. intros t bs Hwf Hrun. eapply enc_canonical. apply (ser_br_enc H th_inj t bs Hwf Hrun). Qed.

  (* decoding and serializing again gives the same bytes *)
  Theorem ser_br_idempotent : forall t bs t' rest, wf_sexp t = true -> node_to_bytes_backrefs H t = Ok bs ->
    snd (node_from_stream_backrefs bs) = Ok (t', rest) -> node_to_bytes_backrefs H t' = Ok bs.
  Proof.
    intros t bs t' rest Hwf Hrun Hdec. destruct (ser_br_roundtrip t bs Hwf Hrun) as (_ & Hn & _).
    rewrite Hn in Hdec. injection Hdec as <- _. exact Hrun.
  Qed.
End Main.

(* ------------------------------------------------------------------ the premise is satisfiable:
   a self-delimiting "hash" (unary length, then the input) makes the tree hash injective *)
Definition H_id (x : bytes) : bytes := repeat 0 (length x) ++ 1 :: x.

Lemma unary_inj : forall n m (a b : bytes), repeat 0 n ++ 1 :: a = repeat 0 m ++ 1 :: b -> n = m /\ a = b.
Proof.
  induction n as [|n IH]; intros [|m] a b Heq; cbn in Heq.
  - injection Heq as <-. split; reflexivity.
  - discriminate.
  - discriminate.
  - injection Heq as Heq. destruct (IH m a b Heq) as [-> ->]. split; reflexivity.
Qed.

Lemma app_inj_len {A} : forall (a b s s' : list A), length a = length b -> a ++ s = b ++ s' -> a = b /\ s = s'.
Proof.
  induction a as [|x a IH]; intros [|y b] s s' Hl Heq; cbn in Hl; try discriminate.
  - split; [reflexivity|exact Heq].
  - cbn in Heq. injection Heq as -> Heq. injection Hl as Hl. destruct (IH b s s' Hl Heq) as [-> ->]. split; reflexivity.
Qed.

Lemma H_id_prefix_free a b s s' : H_id a ++ s = H_id b ++ s' -> a = b /\ s = s'.
Proof.
  unfold H_id. rewrite <- !app_assoc. cbn [app]. intros Heq.
  apply unary_inj in Heq. destruct Heq as [Hl Heq]. apply app_inj_len; assumption.
Qed.

Theorem H_id_treehash_inj : forall t1 t2, treehash H_id t1 = treehash H_id t2 -> t1 = t2.
Proof.
  induction t1 as [b|l IHl r IHr]; intros [b'|l' r'] Heq; cbn [treehash] in Heq; unfold hash_atom, hash_pair in Heq.
  - pose proof (H_id_prefix_free (1 :: b) (1 :: b') [] []) as Hp. rewrite !app_nil_r in Hp.
    destruct (Hp Heq) as [Hb _]. injection Hb as <-. reflexivity.
  - pose proof (H_id_prefix_free (1 :: b) (2 :: treehash H_id l' ++ treehash H_id r') [] []) as Hp.
    rewrite !app_nil_r in Hp. destruct (Hp Heq) as [Hb _]. discriminate.
  - pose proof (H_id_prefix_free (2 :: treehash H_id l ++ treehash H_id r) (1 :: b') [] []) as Hp.
    rewrite !app_nil_r in Hp. destruct (Hp Heq) as [Hb _]. discriminate.
  - pose proof (H_id_prefix_free (2 :: treehash H_id l ++ treehash H_id r) (2 :: treehash H_id l' ++ treehash H_id r') [] []) as Hp.
    rewrite !app_nil_r in Hp. destruct (Hp Heq) as [Hb _]. injection Hb as Hb.
    assert (Hsplit : treehash H_id l = treehash H_id l' /\ treehash H_id r = treehash H_id r').
    { destruct l as [bl|ll lr], l' as [bl'|ll' lr']; cbn [treehash] in Hb |- *; unfold hash_atom, hash_pair in Hb |- *;
        apply H_id_prefix_free in Hb; destruct Hb as [-> ->]; split; reflexivity. }
    destruct Hsplit as [Hl Hr]. rewrite (IHl _ Hl), (IHr _ Hr). reflexivity.
Qed.
