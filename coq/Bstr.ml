open BinNat
open BinNums
open Datatypes
open List

type bytes = coq_N list

(** val wf_byte : coq_N -> bool **)

let wf_byte x =
  N.ltb x (Npos (Coq_xO (Coq_xO (Coq_xO (Coq_xO (Coq_xO (Coq_xO (Coq_xO
    (Coq_xO Coq_xH)))))))))

(** val wf_bytes : bytes -> bool **)

let wf_bytes b =
  forallb wf_byte b

(** val bytes_eqb : bytes -> bytes -> bool **)

let rec bytes_eqb a b =
  match a with
  | [] -> (match b with
           | [] -> true
           | _ :: _ -> false)
  | x :: a' ->
    (match b with
     | [] -> false
     | y :: b' -> (&&) (N.eqb x y) (bytes_eqb a' b'))

(** val take_exact : nat -> 'a1 list -> ('a1 list * 'a1 list) option **)

let rec take_exact n l =
  match n with
  | O -> Some ([], l)
  | S n' ->
    (match l with
     | [] -> None
     | x :: r ->
       (match take_exact n' r with
        | Some p -> let (a, b) = p in Some ((x :: a), b)
        | None -> None))

(** val be_acc : coq_N -> bytes -> coq_N **)

let rec be_acc acc = function
| [] -> acc
| x :: r ->
  be_acc
    (N.add
      (N.mul acc (Npos (Coq_xO (Coq_xO (Coq_xO (Coq_xO (Coq_xO (Coq_xO
        (Coq_xO (Coq_xO Coq_xH)))))))))) x) r

(** val be_value : bytes -> coq_N **)

let be_value b =
  be_acc N0 b

(** val leading_ones_from8 : nat -> coq_N -> coq_N -> coq_N **)

let rec leading_ones_from8 n bit b =
  match n with
  | O -> N0
  | S n' ->
    if N.testbit b bit
    then N.add (Npos Coq_xH) (leading_ones_from8 n' (N.pred bit) b)
    else N0

(** val leading_ones8 : coq_N -> coq_N **)

let leading_ones8 b =
  leading_ones_from8 (S (S (S (S (S (S (S (S O)))))))) (Npos (Coq_xI (Coq_xI
    Coq_xH))) b

(** val blen : bytes -> coq_N **)

let blen b =
  N.of_nat (length b)

(** val take_n : coq_N -> bytes -> (bytes * bytes) option **)

let take_n n l =
  if N.leb n (blen l)
  then Some ((firstn (N.to_nat n) l), (skipn (N.to_nat n) l))
  else None
