(* Extraction of the executable model to OCaml. ExtrOcamlBasic only: bool, option, unit,
   list, prod, sumbool, comparison map to OCaml's; N, Z, positive, nat stay Coq's datatypes. *)
From Coq Require Extraction ExtrOcamlBasic.
From Clvm Require Import Model.Bstr Model.Varint Model.Err Model.Sexp Model.Sha256 Model.Classic.
Extraction Language OCaml.
Separate Extraction
  Model.Bstr.wf_bytes Model.Bstr.be_value
  Model.Varint.write_varint Model.Varint.read_varint
  Model.Sha256.sha256 Model.Sexp.sexp_eqb
  Model.Classic.node_to_bytes Model.Classic.node_to_bytes_limit Model.Classic.ser Model.Classic.node_from_stream
  Model.Classic.tree_hash_from_stream Model.Classic.parse_triples Model.Classic.is_canonical_serialization
  Model.Classic.serialized_length_trusted Model.Classic.cache_serialized_length Model.Classic.treehash Model.Classic.parse
  BinNat.N.of_nat BinNat.N.to_nat BinInt.Z.of_nat BinInt.Z.to_nat BinInt.Z.of_N BinInt.Z.to_N
  BinInt.Z.opp BinInt.Z.add BinInt.Z.mul BinNat.N.add BinNat.N.mul BinInt.Z.ltb BinNat.N.eqb BinNat.N.div_eucl BinInt.Z.div_eucl BinNat.N.ltb BinNat.N.leb BinNat.N.sub BinNat.N.compare BinInt.Z.compare.
