open BinNums
open BinPos
open Datatypes

module N :
 sig
  val succ_double : coq_N -> coq_N

  val double : coq_N -> coq_N

  val pred : coq_N -> coq_N

  val succ_pos : coq_N -> positive

  val add : coq_N -> coq_N -> coq_N

  val sub : coq_N -> coq_N -> coq_N

  val mul : coq_N -> coq_N -> coq_N

  val compare : coq_N -> coq_N -> comparison

  val eqb : coq_N -> coq_N -> bool

  val leb : coq_N -> coq_N -> bool

  val ltb : coq_N -> coq_N -> bool

  val min : coq_N -> coq_N -> coq_N

  val div2 : coq_N -> coq_N

  val pos_div_eucl : positive -> coq_N -> coq_N * coq_N

  val div_eucl : coq_N -> coq_N -> coq_N * coq_N

  val div : coq_N -> coq_N -> coq_N

  val modulo : coq_N -> coq_N -> coq_N

  val coq_lor : coq_N -> coq_N -> coq_N

  val coq_land : coq_N -> coq_N -> coq_N

  val ldiff : coq_N -> coq_N -> coq_N

  val coq_lxor : coq_N -> coq_N -> coq_N

  val shiftl : coq_N -> coq_N -> coq_N

  val shiftr : coq_N -> coq_N -> coq_N

  val testbit : coq_N -> coq_N -> bool

  val to_nat : coq_N -> nat

  val of_nat : nat -> coq_N
 end
