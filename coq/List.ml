open Datatypes

(** val nth : nat -> 'a1 list -> 'a1 -> 'a1 **)

let rec nth n l default =
  match n with
  | O -> (match l with
          | [] -> default
          | x :: _ -> x)
  | S m -> (match l with
            | [] -> default
            | _ :: t -> nth m t default)

(** val nth_error : 'a1 list -> nat -> 'a1 option **)

let rec nth_error l = function
| O -> (match l with
        | [] -> None
        | x :: _ -> Some x)
| S n0 -> (match l with
           | [] -> None
           | _ :: l0 -> nth_error l0 n0)

(** val rev : 'a1 list -> 'a1 list **)

let rec rev = function
| [] -> []
| x :: l' -> app (rev l') (x :: [])

(** val concat : 'a1 list list -> 'a1 list **)

let rec concat = function
| [] -> []
| x :: l0 -> app x (concat l0)

(** val map : ('a1 -> 'a2) -> 'a1 list -> 'a2 list **)

let rec map f = function
| [] -> []
| a :: t -> (f a) :: (map f t)

(** val fold_left : ('a1 -> 'a2 -> 'a1) -> 'a2 list -> 'a1 -> 'a1 **)

let rec fold_left f l a0 =
  match l with
  | [] -> a0
  | b :: t -> fold_left f t (f a0 b)

(** val forallb : ('a1 -> bool) -> 'a1 list -> bool **)

let rec forallb f = function
| [] -> true
| a :: l0 -> (&&) (f a) (forallb f l0)

(** val combine : 'a1 list -> 'a2 list -> ('a1 * 'a2) list **)

let rec combine l l' =
  match l with
  | [] -> []
  | x :: tl ->
    (match l' with
     | [] -> []
     | y :: tl' -> (x, y) :: (combine tl tl'))

(** val firstn : nat -> 'a1 list -> 'a1 list **)

let rec firstn n l =
  match n with
  | O -> []
  | S n0 -> (match l with
             | [] -> []
             | a :: l0 -> a :: (firstn n0 l0))

(** val skipn : nat -> 'a1 list -> 'a1 list **)

let rec skipn n l =
  match n with
  | O -> l
  | S n0 -> (match l with
             | [] -> []
             | _ :: l0 -> skipn n0 l0)

(** val repeat : 'a1 -> nat -> 'a1 list **)

let rec repeat x = function
| O -> []
| S k -> x :: (repeat x k)
