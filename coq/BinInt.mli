open BinNat
open BinNums
open BinPos
open Datatypes

module Z :
 sig
  val double : coq_Z -> coq_Z

  val succ_double : coq_Z -> coq_Z

  val pred_double : coq_Z -> coq_Z

  val pos_sub : positive -> positive -> coq_Z

  val add : coq_Z -> coq_Z -> coq_Z

  val opp : coq_Z -> coq_Z

  val sub : coq_Z -> coq_Z -> coq_Z

  val mul : coq_Z -> coq_Z -> coq_Z

  val pow_pos : coq_Z -> positive -> coq_Z

  val pow : coq_Z -> coq_Z -> coq_Z

  val compare : coq_Z -> coq_Z -> comparison

  val leb : coq_Z -> coq_Z -> bool

  val ltb : coq_Z -> coq_Z -> bool

  val geb : coq_Z -> coq_Z -> bool

  val gtb : coq_Z -> coq_Z -> bool

  val eqb : coq_Z -> coq_Z -> bool

  val to_nat : coq_Z -> nat

  val to_N : coq_Z -> coq_N

  val of_nat : nat -> coq_Z

  val of_N : coq_N -> coq_Z

  val pos_div_eucl : positive -> coq_Z -> coq_Z * coq_Z

  val div_eucl : coq_Z -> coq_Z -> coq_Z * coq_Z

  val modulo : coq_Z -> coq_Z -> coq_Z

  val odd : coq_Z -> bool

  val div2 : coq_Z -> coq_Z

  val testbit : coq_Z -> coq_Z -> bool

  val shiftl : coq_Z -> coq_Z -> coq_Z

  val shiftr : coq_Z -> coq_Z -> coq_Z

  val coq_lor : coq_Z -> coq_Z -> coq_Z

  val coq_land : coq_Z -> coq_Z -> coq_Z
 end
