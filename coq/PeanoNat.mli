open Datatypes

module Nat :
 sig
  val divmod : nat -> nat -> nat -> nat -> nat * nat

  val div : nat -> nat -> nat
 end
