open Datatypes

module Nat =
 struct
  (** val divmod : nat -> nat -> nat -> nat -> nat * nat **)

  let rec divmod x y q u =
    match x with
    | O -> (q, u)
    | S x' ->
      (match u with
       | O -> divmod x' y (S q) y
       | S u' -> divmod x' y q u')

  (** val div : nat -> nat -> nat **)

  let div x y = match y with
  | O -> y
  | S y' -> fst (divmod x y' O y')
 end
