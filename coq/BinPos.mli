open BinNums
open BinPosDef
open Datatypes
open Nat

module Pos :
 sig
  val succ : positive -> positive

  val add : positive -> positive -> positive

  val add_carry : positive -> positive -> positive

  val pred_double : positive -> positive

  val pred_N : positive -> coq_N

  type mask = Pos.mask =
  | IsNul
  | IsPos of positive
  | IsNeg

  val succ_double_mask : mask -> mask

  val double_mask : mask -> mask

  val double_pred_mask : positive -> mask

  val sub_mask : positive -> positive -> mask

  val sub_mask_carry : positive -> positive -> mask

  val mul : positive -> positive -> positive

  val iter : ('a1 -> 'a1) -> 'a1 -> positive -> 'a1

  val div2 : positive -> positive

  val div2_up : positive -> positive

  val compare_cont : comparison -> positive -> positive -> comparison

  val compare : positive -> positive -> comparison

  val eqb : positive -> positive -> bool

  val coq_Nsucc_double : coq_N -> coq_N

  val coq_Ndouble : coq_N -> coq_N

  val coq_lor : positive -> positive -> positive

  val coq_land : positive -> positive -> coq_N

  val ldiff : positive -> positive -> coq_N

  val coq_lxor : positive -> positive -> coq_N

  val shiftl : positive -> coq_N -> positive

  val testbit : positive -> coq_N -> bool

  val iter_op : ('a1 -> 'a1 -> 'a1) -> positive -> 'a1 -> 'a1

  val to_nat : positive -> nat

  val of_succ_nat : nat -> positive
 end
