(* Pins for C27: frozen copies of the statements of Props/C27.v and the tie of the algorithm
   variant to what the translator read from wheel/src/api.rs on this run. *)
From Clvm Require Import Model.PyHeap Props.C27 Gen.PyConsts.
Open Scope N_scope.

Check C27_stable : forall oracle obj, stable obj = true -> addr_consistent [obj] ->
  clvm_tree_to_lazy_node oracle false obj = Ok (tree_of obj).
Check C27_refuted : exists oracle obj, py_alloc_valid oracle /\ addr_consistent [obj] /\
  clvm_tree_to_lazy_node oracle false obj <> Ok (tree_of obj).
Check C27_fixed : forall oracle obj, py_alloc_valid oracle -> addr_consistent [obj] ->
  clvm_tree_to_lazy_node oracle true obj = Ok (tree_of obj).
Check C27_current : current_keepalive = true ->
  forall oracle obj, py_alloc_valid oracle -> addr_consistent [obj] ->
  clvm_tree_to_lazy_node oracle current_keepalive obj = Ok (tree_of obj).
Check (eq_refl : py_alloc_valid = fun oracle => forall n lv, ~ In (oracle n lv) lv).
Check (eq_refl : addr_consistent = fun objs => forall o1 o2,
  In o1 (flat_map subobjs objs) -> In o2 (flat_map subobjs objs) -> addr_of o1 = addr_of o2 -> tree_of o1 = tree_of o2).

Lemma pin_keepalive : current_keepalive = api_src_keepalive.
Proof. reflexivity. Qed.
