(* Pins for C13: frozen statements. The literals are pinned in Pins/C12.v. *)
From Clvm Require Import Model.AllocHist Proofs.AllocBasics Proofs.AllocHeap Proofs.AllocOps
  Proofs.AllocInv Props.C13 Gen.AllocConsts.
From Clvm Require Export Pins.C12.
Open Scope N_scope.

Check C13_caps : forall fx limit h st, 1 <= limit -> Forall wf_op h ->
  a_final fx limit h = Some st -> a_dead st = false -> (fx = true \/ a_f2 st = false) ->
  atom_count (a_al st) <= 62500000 /\ pair_count (a_al st) <= 62500000 /\
  heap_size (a_al st) <= heap_limit (a_al st) /\ heap_limit (a_al st) <= 4294967295.
Check C13_current : forall limit h st, 1 <= limit -> Forall wf_op h ->
  a_final src_f2_fixed limit h = Some st -> a_dead st = false -> (src_f2_fixed = true \/ a_f2 st = false) ->
  atom_count (a_al st) <= 62500000 /\ pair_count (a_al st) <= 62500000 /\
  heap_size (a_al st) <= heap_limit (a_al st) /\ heap_limit (a_al st) <= 4294967295.
Check C13_failed_unchanged : forall fx st o st' e,
  a_step fx st o = (st', ObErr e) -> is_panic e = false ->
  (forall k i, o <> OMaybeRestore k i) -> st' = st.
Check C13_add_ghost_atom : forall a n, AOK a ->
  match add_ghost_atom a n with
  | Err e => e = TooManyAtoms /\ MAX_NUM_ATOMS < atom_count a + n
  | Ok a' => atom_count a + n <= MAX_NUM_ATOMS /\ AOK a' /\ hp a' = hp a /\ bump a a' n 0 0
  end.
Check (fun o => eq_refl : wf_op o = match o with ONewAtom b => wf_bytes b = true | _ => True end).
Check (eq_refl : MAX_NUM_ATOMS = 62500000).
Check (eq_refl : MAX_NUM_PAIRS = 62500000).
