(* Pins for C09: frozen copies of the statements of Props/C09.v (a weakened theorem no longer
   type-checks against them) and the constants op_unknown reads (via Pins/C10consts.v). *)
From Clvm Require Import Model.OpsUnknown Proofs.UnknownProofs Props.C09.
From Clvm Require Export Pins.C10consts.
Open Scope N_scope.

Check C09_rule : forall op lens ncm m,
  m < two64 -> ~ wraps64 op lens ncm m ->
  res_opt (unknown_cost op lens ncm m) = unknown_spec op lens ncm m.
Check C09_op_unknown : forall o f args m,
  m < two64 -> ~ wraps64 o (arg_lens args) (f_new_cost_model f) m ->
  res_opt (op_unknown o f args m) =
  option_map (fun c => (c, nil_s)) (unknown_spec o (arg_lens args) (f_new_cost_model f) m).
Check C09_new : forall op lens m,
  m < two64 -> cost_function_of op <> 3 ->
  res_opt (unknown_cost op lens true m) = unknown_spec op lens true m.
Check C09_refuted : exists op lens m,
  m < two64 /\ wraps64 op lens false m /\
  unknown_spec op lens false m = None /\ unknown_cost op lens false m = Ok 2375088102 /\
  unknown_cost op lens true m = Err CostExceeded.
Check C09_strict : forall o f args m,
  (f_no_unknown_ops f = true -> unknown_operator o f args m = Err Unimplemented) /\
  (f_no_unknown_ops f = false -> unknown_operator o f args m = op_unknown o f args m).

(* the exceptional class is exactly: an Overflow outcome of the model, or pre-hard-fork and
   base * (multiplier + 1) >= 2^64 *)
Check (eq_refl : wraps64 = fun op lens ncm m =>
  is_overflow (unknown_cost op lens ncm m) \/
  (ncm = false /\ exists base, spec_base (cost_function_of op) lens ncm = Some base /\
                               two64 <= base * (be_value (removelast op) + 1))).

(* literals of the rule *)
Lemma pin_two64 : two64 = 2 ^ 64. Proof. reflexivity. Qed.
Lemma pin_u32_max : U32_MAX = 2 ^ 32 - 1. Proof. reflexivity. Qed.
Lemma pin_cost_function_bits : forall b, b < 256 -> cost_function_of [b] = b / 64.
Proof.
  intros b Hb. unfold cost_function_of. cbn [last]. rewrite N.shiftr_div_pow2. change (2 ^ 6) with 64.
  assert (forallb (fun b => N.land b 192 / 64 =? b / 64) (map N.of_nat (seq 0 256)) = true) by (vm_compute; reflexivity).
  rewrite forallb_forall in H. apply N.eqb_eq. apply H. apply in_map_iff. exists (N.to_nat b).
  split; [apply N2Nat.id|]. apply in_seq. split; [apply Nat.le_0_l|].
  change (0 + 256)%nat with (N.to_nat 256). apply Nat.compare_lt_iff. rewrite <- N2Nat.inj_compare. exact Hb.
Qed.
