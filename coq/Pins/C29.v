From Clvm Require Export Pins.C15.
