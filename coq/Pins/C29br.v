(* Pin for the back-reference half of C29 *)
From Clvm Require Import Model.BackRef Model.ReadCache Model.SerBR Props.C29br.
Open Scope N_scope.
Check C29_backrefs : forall H t limit bs, node_to_bytes_backrefs H t = Ok bs ->
  node_to_bytes_backrefs_limit H t limit = if blen bs <=? limit then Ok bs else Err OutOfMemory.
