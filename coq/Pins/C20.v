(* Pins: frozen copies of the C20 statements, and the literals of the hand-written model against
   what the translator reads from /repo's source on this run (Gen/S2026Consts.v). *)
From Clvm Require Import Model.S2026 Model.Classic Proofs.S2026Proofs Proofs.S2026Probe Proofs.S2026Emit Props.C20 Gen.S2026Consts.
Local Open Scope Z_scope.

Check C20_decoder_total : forall (V : Type) (mk_atom : bytes -> V) (mk_pair : V -> V -> V)
    (strict : bool) (max_atom_len : Z) (blob : bytes), wf_bytes blob = true ->
  match de_2026 mk_atom mk_pair strict max_atom_len blob with
  | Ok (_, rest) => (length rest < length blob)%nat
  | Err e => e = SerializationError
  end.
Check C20_probe_total : forall strict max_atom_len buf, wf_bytes buf = true ->
  match probe_2026 strict max_atom_len buf with
  | Ok n => 6 <= n <= Z.of_nat (length buf)
  | Err e => e = SerializationError
  end.
Check C20_alloc_bounded : forall strict max_atom_len bs len count r, wf_bytes bs = true ->
  read_group_header strict max_atom_len bs = Ok (len, count, r) ->
  wf_bytes r = true /\ (length r < length bs)%nat /\ 1 <= len <= max_atom_len /\ 1 <= count.
Check C20_probe_consumed : forall (V : Type) (mk_atom : bytes -> V) (mk_pair : V -> V -> V)
    strict max_atom_len blob v rest,
  wf_bytes blob = true -> Z.of_nat (length blob) < 2 ^ 64 ->
  de_2026 mk_atom mk_pair strict max_atom_len blob = Ok (v, rest) ->
  probe_2026 strict max_atom_len blob = Ok (Z.of_nat (length blob) - Z.of_nat (length rest)).
Check C20_magic_classic : forall r, node_from_stream (magic ++ r) = Err SerializationError.
Check C20_magic_backref_dispatch_partial : forall r,
  match magic ++ r with
  | b :: rest => b <> 0xff%N /\ b <> 0xfe%N /\ parse_atom_node b rest = Err SerializationError
  | [] => False
  end.

Check C20_instructions_roundtrip_partial : forall t table instrs,
  lookup_atoms (it_atoms (intern_tree t)) (sorted_no_nil (intern_tree t)) = Ok table ->
  emit_instructions (intern_tree t) (sorted_no_nil (intern_tree t)) = Ok instrs ->
  exists dp, exec_all (map Atom table) instrs ([], []) = Some (dp, [t]).
Check C20_instr_step_is_exec : forall strict atoms st bs inst r,
  rv strict bs = Ok (inst, r) -> - 2 ^ 55 <= inst ->
  instr_step Atom Cons strict atoms st bs =
    match exec1 atoms st inst with Some st' => Ok (st', r) | None => Err SerializationError end.
Check C20_len_from_roundtrip : forall strict max_atom_len (e : bytes) (t : sexp),
  wf_bytes e = true -> Z.of_nat (length e) < 2 ^ 64 ->
  de_2026 Atom Cons strict max_atom_len e = Ok (t, []) ->
  probe_2026 strict max_atom_len e = Ok (Z.of_nat (length e)).

Lemma pin_magic : magic = src_magic.
Proof. reflexivity. Qed.
Lemma pin_max_index : max_index = src_max_index.
Proof. reflexivity. Qed.
(* the serializer's cons opcode is the LeftFirst one, and the decoder's two cons arms are these *)
Lemma pin_cons_opcodes : src_cons_left_first = 1 /\ src_cons_right_first = -1.
Proof. split; reflexivity. Qed.
Lemma pin_limits : usize_max = 2 ^ 64 - 1 /\ i64_min = - 2 ^ 63 /\ u64_lim = 2 ^ 64.
Proof. repeat split; reflexivity. Qed.
