(* Pins for C23: every cost literal that enters native_cost / clvm_cost (Model/ShaTreeCost.v), as
   written in the hand-made models, equals the constant the translator re-reads from /repo's
   source on this run (Gen/OpConsts.v from more_ops.rs, core_ops.rs, treehash.rs, op_utils.rs;
   Gen/EvalConsts.v from run_program.rs, traverse_path.rs), and the program whose cost
   clvm_cost describes is the one printed in tools/src/bin/sha256tree-benching.rs. Retuning any
   of them in the source breaks its pin; the inequality C23_native_lt_clvm is then re-decided
   with the new numbers after the model constant is updated. *)
From Clvm Require Import Model.ShaTreeCost Gen.OpConsts Gen.EvalConsts.
Open Scope N_scope.

(* evaluator *)
Lemma pin_QUOTE_COST : QUOTE_COST = src_QUOTE_COST. Proof. reflexivity. Qed.
Lemma pin_APPLY_COST : APPLY_COST = src_APPLY_COST. Proof. reflexivity. Qed.
Lemma pin_OP_COST : OP_COST = src_OP_COST. Proof. reflexivity. Qed.
Lemma pin_GUARD_COST : GUARD_COST = src_GUARD_COST. Proof. reflexivity. Qed.
Lemma pin_NEW_GUARD_COST : NEW_GUARD_COST = src_NEW_GUARD_COST. Proof. reflexivity. Qed.
Lemma pin_TRAVERSE_BASE_COST : TRAVERSE_BASE_COST = src_TRAVERSE_BASE_COST. Proof. reflexivity. Qed.
Lemma pin_TRAVERSE_COST_PER_ZERO_BYTE : TRAVERSE_COST_PER_ZERO_BYTE = src_TRAVERSE_COST_PER_ZERO_BYTE. Proof. reflexivity. Qed.
Lemma pin_TRAVERSE_COST_PER_BIT : TRAVERSE_COST_PER_BIT = src_TRAVERSE_COST_PER_BIT. Proof. reflexivity. Qed.
(* operators used by the ChiaLisp program: i, c, l, sha256 *)
Lemma pin_IF_COST : IF_COST = src_IF_COST. Proof. reflexivity. Qed.
Lemma pin_NEW_IF_COST : NEW_IF_COST = src_NEW_IF_COST. Proof. reflexivity. Qed.
Lemma pin_CONS_COST : CONS_COST = src_CONS_COST. Proof. reflexivity. Qed.
Lemma pin_LISTP_COST : LISTP_COST = src_LISTP_COST. Proof. reflexivity. Qed.
Lemma pin_NEW_LISTP_COST : NEW_LISTP_COST = src_NEW_LISTP_COST. Proof. reflexivity. Qed.
Lemma pin_SHA256_BASE_COST : SHA256_BASE_COST = src_SHA256_BASE_COST. Proof. reflexivity. Qed.
Lemma pin_SHA256_COST_PER_ARG : SHA256_COST_PER_ARG = src_SHA256_COST_PER_ARG. Proof. reflexivity. Qed.
Lemma pin_SHA256_COST_PER_BYTE : SHA256_COST_PER_BYTE = src_SHA256_COST_PER_BYTE. Proof. reflexivity. Qed.
Lemma pin_NEW_SHA256_BASE_COST : NEW_SHA256_BASE_COST = src_NEW_SHA256_BASE_COST. Proof. reflexivity. Qed.
Lemma pin_NEW_SHA256_COST_PER_ARG : NEW_SHA256_COST_PER_ARG = src_NEW_SHA256_COST_PER_ARG. Proof. reflexivity. Qed.
Lemma pin_NEW_SHA256_COST_PER_BYTE : NEW_SHA256_COST_PER_BYTE = src_NEW_SHA256_COST_PER_BYTE. Proof. reflexivity. Qed.
Lemma pin_MALLOC_COST_PER_BYTE : MALLOC_COST_PER_BYTE = src_MALLOC_COST_PER_BYTE. Proof. reflexivity. Qed.
(* the native operator *)
Lemma pin_SHA256TREE_BASE_COST : SHA256TREE_BASE_COST = src_SHA256TREE_BASE_COST. Proof. reflexivity. Qed.
Lemma pin_SHA256TREE_PAIR_COST : SHA256TREE_PAIR_COST = src_SHA256TREE_PAIR_COST. Proof. reflexivity. Qed.
Lemma pin_SHA256TREE_COST_PER_BYTE : SHA256TREE_COST_PER_BYTE = src_SHA256TREE_COST_PER_BYTE. Proof. reflexivity. Qed.
Lemma pin_NEW_SHA256TREE_COST_PER_BYTE : NEW_SHA256TREE_COST_PER_BYTE = src_NEW_SHA256TREE_COST_PER_BYTE. Proof. reflexivity. Qed.

(* the program: the tool's hex literal is the model's byte string, which decodes to (and is the
   serialization of) the program tree the theorems are about *)
Lemma pin_prog_hex : sha256tree_prog_hex = src_sha256tree_prog_hex. Proof. reflexivity. Qed.
Lemma pin_prog_tree : node_from_bytes src_sha256tree_prog_hex = Ok sha256tree_prog.
Proof. vm_compute. reflexivity. Qed.
