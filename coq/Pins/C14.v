(* Pins for C14: frozen statements. The literals are pinned in Pins/C12.v. *)
From Clvm Require Import Model.AllocHist Proofs.AllocBasics Proofs.AllocHeap Proofs.AllocOps
  Proofs.AllocInv Proofs.AllocReads Props.C14.
From Clvm Require Export Pins.C12.
Open Scope N_scope.

Check C14_immutable : forall fx h st, AINV st -> Forall wf_op h ->
  a_dead (fst (a_run fx st h)) = false -> (fx = true \/ a_f2 (fst (a_run fx st h)) = false) ->
  exists m, m <= nlen (a_nodes st) /\
    (exists extra, a_nodes (fst (a_run fx st h)) = take_N m (a_nodes st) ++ extra) /\
    forall n, In n (take_N m (a_nodes st)) ->
      vnode (hp (a_al (fst (a_run fx st h)))) n /\
      denote (hp (a_al (fst (a_run fx st h)))) n = denote (hp (a_al st)) n.
Check C14_small_number : forall a n t, WF (hp a) -> denote (hp a) n = Some t ->
  small_number a n = Ok (r_small_number t).
Check C14_fits_in_small_atom : forall b v, wf_bytes b = true ->
  (fits_in_small_atom b = Some v <-> b = bytes_of_int (Z.of_N v) /\ v < 2 ^ 26).
Check C14_number : forall a n b, denote (hp a) n = Some (Atom b) -> number a n = Ok (int_of_bytes b).
Check C14_atom_eq : forall a x y bx by_, WF (hp a) ->
  denote (hp a) x = Some (Atom bx) -> denote (hp a) y = Some (Atom by_) ->
  atom_eq a x y = Ok (bytes_eqb bx by_).
Check C14_enc_number : forall a z, AOK a -> stores a (new_number a z) z.
Check C14_enc_u64 : forall a v, AOK a -> v < 2 ^ 64 -> stores a (new_u64 a v) (Z.of_N v).
Check C14_enc_i64 : forall a z, AOK a -> (- 2 ^ 63 <= z < 2 ^ 63)%Z -> stores a (new_i64 a z) z.
Check C14_roundtrip : forall z, int_of_bytes (bytes_of_int z) = z.
Check C14_minimal : forall b, wf_bytes b = true -> (length (bytes_of_int (int_of_bytes b)) <= length b)%nat.
Check C14_canonical_unique : forall b, wf_bytes b = true -> canonical_int b = true -> bytes_of_int (int_of_bytes b) = b.
Check (fun a r z => eq_refl : stores a r z =
  match r with
  | Ok (a', n) => denote (hp a') n = Some (Atom (bytes_of_int z)) /\ number a' n = Ok z /\
                  atom a' n = Ok (bytes_of_int z) /\ bump a a' 1 0 (blen (bytes_of_int z))
  | Err e => (e = OutOfMemory /\ heap_limit a < heap_size a + blen (bytes_of_int z)) \/
             (e = TooManyAtoms /\ atom_count a = MAX_NUM_ATOMS)
  end).
