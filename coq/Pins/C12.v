(* Pins for C12: frozen statements + the model's literals equal what the translator read. *)
From Clvm Require Import Model.AllocHist Proofs.AllocBasics Props.C12 Gen.AllocConsts.
Open Scope N_scope.

Lemma pin_alloc_consts :
  MAX_NUM_ATOMS = src_max_num_atoms /\ MAX_NUM_PAIRS = src_max_num_pairs /\
  R_MAX_ATOMS = src_max_num_atoms /\ R_MAX_PAIRS = src_max_num_pairs /\
  NODE_PTR_IDX_BITS = src_node_ptr_idx_bits /\ NODE_PTR_IDX_MASK = 2 ^ src_node_ptr_idx_bits - 1 /\
  R_SMALL_LIMIT = 2 ^ src_node_ptr_idx_bits /\
  CLONE_ATOM_LIMIT = src_clone_atom_limit /\ MIN_SAVINGS = src_min_savings /\
  (forall a, new_limited 0 = Ok a -> (ghost_atoms a, ghost_pairs a, ghost_heap a) = src_init_ghosts) /\
  r_counts (r_new 0) = src_init_ghosts.
Proof. vm_compute. repeat split. intros a H. inversion H. reflexivity. Qed.

(* len_for_value changes value exactly at the source's thresholds *)
Lemma pin_len_for_value :
  map (fun t => (len_for_value (t - 1), len_for_value t)) src_len_for_value_thresholds
  = [(1, 2); (2, 3); (3, 4); (4, 5)] /\ len_for_value 0 = 0 /\ len_for_value 1 = 1.
Proof. vm_compute. repeat split. Qed.

Check C12_init_counts : forall limit a, new_limited limit = Ok a -> counts a = (2, 0, 1).
