(* Pins for C12: the model's literals equal what the translator read from /repo on this run, and
   frozen copies of the theorem statements. *)
From Clvm Require Import Model.AllocHist Proofs.AllocBasics Proofs.AllocHeap Proofs.AllocOps
  Proofs.AllocRestore Proofs.AllocReads Proofs.AllocInv Proofs.AllocSim Proofs.AllocStraddle Props.C12 Gen.AllocConsts.
Open Scope N_scope.

Lemma pin_alloc_consts :
  MAX_NUM_ATOMS = src_max_num_atoms /\ MAX_NUM_PAIRS = src_max_num_pairs /\
  R_MAX_ATOMS = src_max_num_atoms /\ R_MAX_PAIRS = src_max_num_pairs /\
  NODE_PTR_IDX_BITS = src_node_ptr_idx_bits /\ NODE_PTR_IDX_MASK = 2 ^ src_node_ptr_idx_bits - 1 /\
  R_SMALL_LIMIT = 2 ^ src_node_ptr_idx_bits /\
  CLONE_ATOM_LIMIT = src_clone_atom_limit /\ MIN_SAVINGS = src_min_savings /\
  (forall a, new_limited 0 = Ok a -> (ghost_atoms a, ghost_pairs a, ghost_heap a) = src_init_ghosts) /\
  r_counts (r_new 0) = src_init_ghosts.
Proof. vm_compute. repeat split. intros a H. inversion H. reflexivity. Qed.

Lemma pin_len_for_value :
  map (fun t => (len_for_value (t - 1), len_for_value t)) src_len_for_value_thresholds
  = [(1, 2); (2, 3); (3, 4); (4, 5)] /\ len_for_value 0 = 0 /\ len_for_value 1 = 1.
Proof. vm_compute. repeat split. Qed.

Check C12_init_counts : forall limit a, new_limited limit = Ok a -> counts a = (2, 0, 1).
Check C12_new_atom : forall a b, AOK a -> wf_bytes b = true ->
  match new_atom a b with
  | Err e => (e = OutOfMemory /\ heap_limit a < heap_size a + blen b) \/
             (e = TooManyAtoms /\ heap_size a + blen b <= heap_limit a /\ atom_count a = MAX_NUM_ATOMS)
  | Ok (a', n) => heap_size a + blen b <= heap_limit a /\ atom_count a < MAX_NUM_ATOMS /\
                  AOK a' /\ ext (hp a) (hp a') /\ vnode (hp a') n /\ denote (hp a') n = Some (Atom b) /\
                  bump a a' 1 0 (blen b)
  end.
Check C12_new_number : forall a z, AOK a -> stores a (new_number a z) z.
Check C12_new_substr : forall fx a n b s e, AOK a -> vnode (hp a) n -> denote (hp a) n = Some (Atom b) ->
  match new_substr_gen fx a n s e with
  | Err er => (er = TooManyAtoms /\ atom_count a = MAX_NUM_ATOMS) \/
              (atom_count a < MAX_NUM_ATOMS /\
               ((er = InvalidAllocArg 1 /\ blen b < s) \/ (er = InvalidAllocArg 2 /\ s <= blen b < e) \/
                (er = InvalidAllocArg 3 /\ e < s /\ e <= blen b) \/
                (er = OutOfMemory /\ fx = true /\ s <= e <= blen b /\ heap_limit a < heap_size a + (e - s))))
  | Ok (a', m, path) =>
      atom_count a < MAX_NUM_ATOMS /\ s <= e /\ e <= blen b /\
      match path with
      | SubSmallHeap =>
          fx = true ->
          ext (hp a) (hp a') /\ vnode (hp a') m /\ denote (hp a') m = Some (Atom (sub_bytes b s e)) /\
          AOK a' /\ bump a a' 1 0 (e - s)
      | _ => ext (hp a) (hp a') /\ vnode (hp a') m /\ denote (hp a') m = Some (Atom (sub_bytes b s e)) /\
             AOK a' /\ bump a a' 1 0 0
      end
  end.
Check C12_transparent_restore_keeps : forall a c, AOK a -> tcp_le c (hp a) -> WF (trunc (hp a) c) ->
  exists a1, restore_transparent_checkpoint a c = Ok a1 /\ hp a1 = trunc (hp a) c /\ AOK a1 /\
             bump a a1 0 0 0 /\ ghost_atoms a1 = ghost_atoms a + (atoms_len a - c_atoms c) /\
             ghost_heap a1 = ghost_heap a + (u8_len a - c_u8s c) /\ ghost_pairs a1 = ghost_pairs a + (pairs_len a - c_pairs c).
Check C12_full_restore_resets : forall a c, AOK a -> tcp_le (c_inner c) (hp a) -> WF (trunc (hp a) (c_inner c)) ->
  c_atoms (c_inner c) + c_ga c <= MAX_NUM_ATOMS -> c_pairs (c_inner c) + c_gp c <= MAX_NUM_PAIRS ->
  c_u8s (c_inner c) + c_gh c <= heap_limit a ->
  exists a1, restore_checkpoint a c = Ok a1 /\ hp a1 = trunc (hp a) (c_inner c) /\ AOK a1 /\
             heap_limit a1 = heap_limit a /\
             counts a1 = (c_atoms (c_inner c) + c_ga c, c_pairs (c_inner c) + c_gp c, c_u8s (c_inner c) + c_gh c).
Check C12_maybe_restore_keeps : forall a c x,
  AOK a -> tcp_le c (hp a) -> WF (trunc (hp a) c) -> vnode (hp a) x -> no_straddle a c ->
  exists a' r, maybe_restore_with_node a c x = (a', Ok r) /\ counts a' = counts a /\
    match r with
    | Aborted => a' = a
    | NoReplace => vnode (hp a') x /\ denote (hp a') x = denote (hp a) x
    | Replace n => vnode (hp a') n /\ denote (hp a') n = denote (hp a) x
    end.
(* the definitions the statements rest on *)
Check (fun a a' da dp dh => eq_refl : bump a a' da dp dh =
  (heap_limit a' = heap_limit a /\ atom_count a' = atom_count a + da /\
   pair_count a' = pair_count a + dp /\ heap_size a' = heap_size a + dh)).
Check (fun a => eq_refl : counts_ok a =
  (heap_limit a <= U32_MAX /\ atom_count a <= MAX_NUM_ATOMS /\ pair_count a <= MAX_NUM_PAIRS /\
   heap_size a <= heap_limit a)).

(* the whole-history theorem and the definitions it is stated with *)
Check (C12_history : forall fx limit h st, 1 <= limit -> Forall wf_op2 h ->
  a_final fx limit h = Some st -> a_dead st = false -> a_f2 st = false ->
  (forall st0, a_init limit = Ok st0 -> substr_clean fx st0 h) ->
  a_counts st = rs_counts (r_final limit h) /\ r_dead (r_final limit h) = false /\
  heap_limit (a_al st) = r_limit (r_st (r_final limit h)) /\
  Forall2 (fun n t => denote (hp (a_al st)) n = Some t) (a_nodes st) (r_nodes (r_final limit h))).
Check (C12_history_unrepaired : forall limit h st, 1 <= limit -> Forall wf_op2 h ->
  a_final false limit h = Some st -> a_dead st = false -> a_f2 st = false ->
  a_counts st = rs_counts (r_final limit h)).
Check (C12_no_straddle : forall fx st o, AINV st -> NSI st -> NSI (fst (a_step fx st o))).
Check (C12_maybe_restore_total : forall fx st k i, AINV st -> NSI st ->
  snd (a_step fx st (OMaybeRestore k i)) <> ObErr (InternalError 5)).
Check (C12_step : forall fx st rs o, SIM st rs -> wf_op2 o ->
  a_dead (fst (a_step fx st o)) = false -> a_f2 (fst (a_step fx st o)) = false ->
  step_ok fx o (snd (a_step fx st o)) ->
  SIM (fst (a_step fx st o)) (fst (r_step rs o))).
Check (C12_init : forall limit st, 1 <= limit -> a_init limit = Ok st -> SIM st (r_init limit)).
Check (eq_refl : wf_op2 = fun o =>
  match o with
  | ONewAtom b => wf_bytes b = true
  | ONewU64 v => v < 2 ^ 64
  | ONewI64 z => (- 2 ^ 63 <= z < 2 ^ 63)%Z
  | _ => True
  end).
Check (eq_refl : substr_ok = fun fx o ob =>
  match o with
  | ONewSubstr _ _ _ => fx = false \/ ob <> ObErr OutOfMemory
  | _ => True
  end).
Check (fun fx st o r => eq_refl : substr_clean fx st (o :: r) =
  (substr_ok fx o (snd (a_step fx st o)) /\ substr_clean fx (fst (a_step fx st o)) r)).
Check (fun fx st => eq_refl : substr_clean fx st [] = True).
Check (eq_refl : step_ok = fun fx o ob =>
  match o with
  | ONewSubstr _ _ _ => fx = false \/ ob <> ObErr OutOfMemory
  | OMaybeRestore _ _ => ob <> ObErr (InternalError 5)
  | _ => True
  end).
Check (eq_refl : NSI = fun st => forall e, In e (a_cps st) ->
  Forall (fun se => fst se < c_u8s (cp_tcp e) -> snd se <= c_u8s (cp_tcp e)) (atoms (hp (a_al st)))).
Check (eq_refl : a_counts = fun st => counts (a_al st)).
Check (eq_refl : rs_counts = fun st => r_counts (r_st st)).
Check (eq_refl : a_final = fun fx limit h =>
  match a_init limit with Ok st => Some (fst (a_run fx st h)) | Err _ => None end).
Check (eq_refl : r_final = fun limit h => fst (r_run (r_init limit) h)).
Check (fun st rs (H : SIM st rs) => conj (sim_inv st rs H) (sr_counts st rs (sim_r st rs H))
  : AINV st /\ counts (a_al st) = r_counts (r_st rs)).
