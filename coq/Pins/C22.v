(* Pins: frozen copies of the C22 statements; the cost constants of the hand-written model against
   the translator's reading of src/treehash.rs on this run. *)
From Clvm Require Import Model.TreeHashOp Model.Sha256 Model.Classic Gen.Tables
  Proofs.TreeHashProofs Proofs.TableProofs Proofs.InternProofs Props.C22.
Local Open Scope N_scope.

Check C22_costed : forall (H : bytes -> bytes) (table : list bytes), table_ok H table ->
  forall new_cost_model t max,
  tree_hash_costed H table new_cost_model t max =
    if max <? native_cost new_cost_model t then Err CostExceeded
    else Ok (native_cost new_cost_model t, treehash H (erase t)).
Check C22_precomputed_table : length src_precomputed_hashes = 37%nat /\
  forall i h, get_n src_precomputed_hashes i = Some h -> h = sha256 (1 :: small_bytes i).
Check C22_object_cache : forall (H : bytes -> bytes) it t, tree_of it = Some t ->
  forall fuel, (n_nodes t + n_pairs t < fuel)%nat ->
  exists cache, oc_loop H it fuel [] [it_root it] = Ok cache /\
                lookup (it_root it) cache = Some (treehash H t).
Check C22_interned : forall (H : bytes -> bytes) t fuel, (n_nodes t + n_pairs t < fuel)%nat ->
  exists cache, oc_loop H (intern_tree t) fuel [] [it_root (intern_tree t)] = Ok cache /\
                lookup (it_root (intern_tree t)) cache = Some (treehash H t).
Check C22_python : forall (H : bytes -> bytes) it can_cache t, tree_of it = Some t ->
  forall fuel, (n_nodes t + n_pairs t < fuel)%nat -> py_treehash H it can_cache fuel = Ok (treehash H t).
Check C22_from_stream : forall (H : bytes -> bytes) t e rest, wf_sexp t = true -> ser t = Some e ->
  tree_hash_from_stream H (e ++ rest) = Ok (treehash H t, rest).

Lemma pin_cost_constants :
  SHA256TREE_BASE_COST = src_sha256tree_base_cost /\ SHA256TREE_PAIR_COST = src_sha256tree_pair_cost /\
  SHA256TREE_COST_PER_BYTE = src_sha256tree_cost_per_byte /\
  NEW_SHA256TREE_COST_PER_BYTE = src_new_sha256tree_cost_per_byte /\
  MALLOC_COST_PER_BYTE = src_malloc_cost_per_byte.
Proof. repeat split; reflexivity. Qed.

(* the recursive definition itself, with sha256: sha256tree of the atom 01 and of (1 . nil) *)
Lemma pin_treehash_literals :
  treehash sha256 (Atom [1]) = nth 1 src_precomputed_hashes [] /\
  treehash sha256 (Atom []) = nth 0 src_precomputed_hashes [] /\
  treehash sha256 (Cons (Atom [1]) (Atom [])) =
    sha256 (2 :: nth 1 src_precomputed_hashes [] ++ nth 0 src_precomputed_hashes []).
Proof. vm_compute. repeat split; reflexivity. Qed.
