From Clvm Require Export Props.C18.
