(* Pins for C18: frozen copies of the statements in Props/C18.v (a weakened theorem no longer
   type-checks against its pin), and computational pins of the format's marker bytes and of the
   decoders' behaviour on the test vectors of src/serde/de_br.rs. *)
From Clvm Require Import Model.BackRef Props.C18.
Open Scope N_scope.

Check C18_old_refines_spec : forall bs, snd (node_from_stream_backrefs_old bs) = de_br_spec bs.

Check C18_new_refines_spec : forall bs,
  match de_br_spec bs, snd (node_from_stream_backrefs bs) with
  | Ok a, Ok b => a = b
  | Err e1, Err e2 => e1 = e2 \/ (e1 = PathIntoAtom /\ e2 = SerializationBackrefError)
  | _, _ => False
  end.

Check C18_decoders_agree : forall bs,
  fst (node_from_stream_backrefs bs) = fst (node_from_stream_backrefs_old bs) /\
  match snd (node_from_stream_backrefs_old bs), snd (node_from_stream_backrefs bs) with
  | Ok a, Ok b => a = b
  | Err e1, Err e2 => e1 = e2 \/ (e1 = PathIntoAtom /\ e2 = SerializationBackrefError)
  | _, _ => False
  end.

Check C18_probe_agrees : forall bs,
  serialized_length_from_bytes bs =
    match snd (node_from_stream_backrefs_old bs) with
    | Ok (_, rest) => Ok (blen bs - blen rest)
    | Err e => Err e
    end.

Check C18_probe_accepts_iff : forall bs n,
  serialized_length_from_bytes bs = Ok n <->
  exists t rest, snd (node_from_stream_backrefs bs) = Ok (t, rest) /\ n = blen bs - blen rest.

Check C18_no_panic : forall bs e,
  snd (node_from_stream_backrefs bs) = Err e \/ snd (node_from_stream_backrefs_old bs) = Err e \/
  serialized_length_from_bytes bs = Err e ->
  ~ (e = OutOfFuel \/ exists n, e = Panic n).

(* the grammar is the documented one (docs/compressed-serialization.md): 0xff pair, 0xfe
   back-reference whose path is an atom, paths are read against the stack as a list with the
   most recently parsed object first *)
Lemma pin_format :
  de_br_spec [0xff; 0x05; 0xfe; 0x02] = Ok (Cons (Atom [5]) (Atom [5]), []) /\
  de_br_spec [0xff; 0x05; 0xfe; 0x01] = Ok (Cons (Atom [5]) (Cons (Atom [5]) (Atom [])), []) /\
  de_br_spec [0xff; 0x05; 0xfe; 0x03] = Ok (Cons (Atom [5]) (Atom []), []) /\
  de_br_spec [0xfe; 0x01] = Ok (Atom [], []) /\
  de_br_spec [0xfe; 0x80] = Ok (Atom [], []) /\
  de_br_spec [0xfe; 0x00] = Ok (Atom [], []) /\
  de_br_spec [0xfe; 0x02] = Err PathIntoAtom /\
  de_br_spec [0xff; 0xfe; 0x01; 0x00] = Ok (Cons (Atom []) (Atom [0]), []).
Proof. vm_compute. repeat split. Qed.
