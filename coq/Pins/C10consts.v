(* Pins for C10 (and C09): every cost literal of the hand-written operator models equals the
   constant the translator re-reads from /repo's source on this run (Gen/OpConsts.v is regenerated
   by every check from src/more_ops.rs, core_ops.rs, treehash.rs, op_utils.rs). Retuning a constant
   in the source breaks the corresponding pin. *)
From Clvm Require Import Model.OpsCore Model.OpsArith Model.OpsStr Model.OpsBits Model.OpsUnknown Gen.OpConsts.
Open Scope N_scope.

Lemma pin_ARITH_BASE_COST : ARITH_BASE_COST = src_ARITH_BASE_COST. Proof. reflexivity. Qed.
Lemma pin_ARITH_COST_PER_ARG : ARITH_COST_PER_ARG = src_ARITH_COST_PER_ARG. Proof. reflexivity. Qed.
Lemma pin_ARITH_COST_PER_BYTE : ARITH_COST_PER_BYTE = src_ARITH_COST_PER_BYTE. Proof. reflexivity. Qed.
Lemma pin_NEW_ARITH_COST_PER_ARG : NEW_ARITH_COST_PER_ARG = src_NEW_ARITH_COST_PER_ARG. Proof. reflexivity. Qed.
Lemma pin_NEW_ARITH_COST_PER_BYTE : NEW_ARITH_COST_PER_BYTE = src_NEW_ARITH_COST_PER_BYTE. Proof. reflexivity. Qed.
Lemma pin_LOG_BASE_COST : LOG_BASE_COST = src_LOG_BASE_COST. Proof. reflexivity. Qed.
Lemma pin_LOG_COST_PER_ARG : LOG_COST_PER_ARG = src_LOG_COST_PER_ARG. Proof. reflexivity. Qed.
Lemma pin_LOG_COST_PER_BYTE : LOG_COST_PER_BYTE = src_LOG_COST_PER_BYTE. Proof. reflexivity. Qed.
Lemma pin_LOGNOT_BASE_COST : LOGNOT_BASE_COST = src_LOGNOT_BASE_COST. Proof. reflexivity. Qed.
Lemma pin_LOGNOT_COST_PER_BYTE : LOGNOT_COST_PER_BYTE = src_LOGNOT_COST_PER_BYTE. Proof. reflexivity. Qed.
Lemma pin_MUL_BASE_COST : MUL_BASE_COST = src_MUL_BASE_COST. Proof. reflexivity. Qed.
Lemma pin_MUL_COST_PER_OP : MUL_COST_PER_OP = src_MUL_COST_PER_OP. Proof. reflexivity. Qed.
Lemma pin_MUL_LINEAR_COST_PER_BYTE : MUL_LINEAR_COST_PER_BYTE = src_MUL_LINEAR_COST_PER_BYTE. Proof. reflexivity. Qed.
Lemma pin_MUL_SQUARE_COST_PER_BYTE_DIVIDER : MUL_SQUARE_COST_PER_BYTE_DIVIDER = src_MUL_SQUARE_COST_PER_BYTE_DIVIDER. Proof. reflexivity. Qed.
Lemma pin_NEW_MUL_BASE_COST : NEW_MUL_BASE_COST = src_NEW_MUL_BASE_COST. Proof. reflexivity. Qed.
Lemma pin_NEW_MUL_SQUARE_COST_PER_BYTE_DIVIDER : NEW_MUL_SQUARE_COST_PER_BYTE_DIVIDER = src_NEW_MUL_SQUARE_COST_PER_BYTE_DIVIDER. Proof. reflexivity. Qed.
Lemma pin_GR_BASE_COST : GR_BASE_COST = src_GR_BASE_COST. Proof. reflexivity. Qed.
Lemma pin_GR_COST_PER_BYTE : GR_COST_PER_BYTE = src_GR_COST_PER_BYTE. Proof. reflexivity. Qed.
Lemma pin_NEW_GR_BASE_COST : NEW_GR_BASE_COST = src_NEW_GR_BASE_COST. Proof. reflexivity. Qed.
Lemma pin_NEW_GR_COST_PER_BYTE : NEW_GR_COST_PER_BYTE = src_NEW_GR_COST_PER_BYTE. Proof. reflexivity. Qed.
Lemma pin_GRS_BASE_COST : GRS_BASE_COST = src_GRS_BASE_COST. Proof. reflexivity. Qed.
Lemma pin_GRS_COST_PER_BYTE : GRS_COST_PER_BYTE = src_GRS_COST_PER_BYTE. Proof. reflexivity. Qed.
Lemma pin_STRLEN_BASE_COST : STRLEN_BASE_COST = src_STRLEN_BASE_COST. Proof. reflexivity. Qed.
Lemma pin_STRLEN_COST_PER_BYTE : STRLEN_COST_PER_BYTE = src_STRLEN_COST_PER_BYTE. Proof. reflexivity. Qed.
Lemma pin_CONCAT_BASE_COST : CONCAT_BASE_COST = src_CONCAT_BASE_COST. Proof. reflexivity. Qed.
Lemma pin_CONCAT_COST_PER_ARG : CONCAT_COST_PER_ARG = src_CONCAT_COST_PER_ARG. Proof. reflexivity. Qed.
Lemma pin_CONCAT_COST_PER_BYTE : CONCAT_COST_PER_BYTE = src_CONCAT_COST_PER_BYTE. Proof. reflexivity. Qed.
Lemma pin_DIVMOD_BASE_COST : DIVMOD_BASE_COST = src_DIVMOD_BASE_COST. Proof. reflexivity. Qed.
Lemma pin_DIVMOD_COST_PER_BYTE : DIVMOD_COST_PER_BYTE = src_DIVMOD_COST_PER_BYTE. Proof. reflexivity. Qed.
Lemma pin_DIV_BASE_COST : DIV_BASE_COST = src_DIV_BASE_COST. Proof. reflexivity. Qed.
Lemma pin_DIV_COST_PER_BYTE : DIV_COST_PER_BYTE = src_DIV_COST_PER_BYTE. Proof. reflexivity. Qed.
Lemma pin_NEW_DIV_BASE_COST : NEW_DIV_BASE_COST = src_NEW_DIV_BASE_COST. Proof. reflexivity. Qed.
Lemma pin_NEW_DIV_LINEAR_COST_PER_BYTE : NEW_DIV_LINEAR_COST_PER_BYTE = src_NEW_DIV_LINEAR_COST_PER_BYTE. Proof. reflexivity. Qed.
Lemma pin_NEW_DIV_SQUARE_COST_PER_BYTE_DIVIDER : NEW_DIV_SQUARE_COST_PER_BYTE_DIVIDER = src_NEW_DIV_SQUARE_COST_PER_BYTE_DIVIDER. Proof. reflexivity. Qed.
Lemma pin_SHA256_BASE_COST : SHA256_BASE_COST = src_SHA256_BASE_COST. Proof. reflexivity. Qed.
Lemma pin_SHA256_COST_PER_ARG : SHA256_COST_PER_ARG = src_SHA256_COST_PER_ARG. Proof. reflexivity. Qed.
Lemma pin_SHA256_COST_PER_BYTE : SHA256_COST_PER_BYTE = src_SHA256_COST_PER_BYTE. Proof. reflexivity. Qed.
Lemma pin_NEW_SHA256_BASE_COST : NEW_SHA256_BASE_COST = src_NEW_SHA256_BASE_COST. Proof. reflexivity. Qed.
Lemma pin_NEW_SHA256_COST_PER_ARG : NEW_SHA256_COST_PER_ARG = src_NEW_SHA256_COST_PER_ARG. Proof. reflexivity. Qed.
Lemma pin_NEW_SHA256_COST_PER_BYTE : NEW_SHA256_COST_PER_BYTE = src_NEW_SHA256_COST_PER_BYTE. Proof. reflexivity. Qed.
Lemma pin_ASHIFT_BASE_COST : ASHIFT_BASE_COST = src_ASHIFT_BASE_COST. Proof. reflexivity. Qed.
Lemma pin_ASHIFT_COST_PER_BYTE : ASHIFT_COST_PER_BYTE = src_ASHIFT_COST_PER_BYTE. Proof. reflexivity. Qed.
Lemma pin_LSHIFT_BASE_COST : LSHIFT_BASE_COST = src_LSHIFT_BASE_COST. Proof. reflexivity. Qed.
Lemma pin_LSHIFT_COST_PER_BYTE : LSHIFT_COST_PER_BYTE = src_LSHIFT_COST_PER_BYTE. Proof. reflexivity. Qed.
Lemma pin_BOOL_BASE_COST : BOOL_BASE_COST = src_BOOL_BASE_COST. Proof. reflexivity. Qed.
Lemma pin_BOOL_COST_PER_ARG : BOOL_COST_PER_ARG = src_BOOL_COST_PER_ARG. Proof. reflexivity. Qed.
Lemma pin_NEW_SUBSTR_COST : NEW_SUBSTR_COST = src_NEW_SUBSTR_COST. Proof. reflexivity. Qed.
Lemma pin_MODPOW_BASE_COST : MODPOW_BASE_COST = src_MODPOW_BASE_COST. Proof. reflexivity. Qed.
Lemma pin_MODPOW_COST_PER_BYTE_BASE_VALUE : MODPOW_COST_PER_BYTE_BASE_VALUE = src_MODPOW_COST_PER_BYTE_BASE_VALUE. Proof. reflexivity. Qed.
Lemma pin_MODPOW_COST_PER_BYTE_EXPONENT : MODPOW_COST_PER_BYTE_EXPONENT = src_MODPOW_COST_PER_BYTE_EXPONENT. Proof. reflexivity. Qed.
Lemma pin_MODPOW_COST_PER_BYTE_MOD : MODPOW_COST_PER_BYTE_MOD = src_MODPOW_COST_PER_BYTE_MOD. Proof. reflexivity. Qed.
Lemma pin_NEW_MODPOW_PER_ITERATION_COST : NEW_MODPOW_PER_ITERATION_COST = src_NEW_MODPOW_PER_ITERATION_COST. Proof. reflexivity. Qed.
Lemma pin_NEW_MODPOW_EXPONENT_MULTIPLIER : NEW_MODPOW_EXPONENT_MULTIPLIER = src_NEW_MODPOW_EXPONENT_MULTIPLIER. Proof. reflexivity. Qed.
Lemma pin_SHA256TREE_BASE_COST : SHA256TREE_BASE_COST = src_SHA256TREE_BASE_COST. Proof. reflexivity. Qed.
Lemma pin_SHA256TREE_PAIR_COST : SHA256TREE_PAIR_COST = src_SHA256TREE_PAIR_COST. Proof. reflexivity. Qed.
Lemma pin_SHA256TREE_COST_PER_BYTE : SHA256TREE_COST_PER_BYTE = src_SHA256TREE_COST_PER_BYTE. Proof. reflexivity. Qed.
Lemma pin_NEW_SHA256TREE_COST_PER_BYTE : NEW_SHA256TREE_COST_PER_BYTE = src_NEW_SHA256TREE_COST_PER_BYTE. Proof. reflexivity. Qed.
Lemma pin_FIRST_COST : FIRST_COST = src_FIRST_COST. Proof. reflexivity. Qed.
Lemma pin_IF_COST : IF_COST = src_IF_COST. Proof. reflexivity. Qed.
Lemma pin_NEW_IF_COST : NEW_IF_COST = src_NEW_IF_COST. Proof. reflexivity. Qed.
Lemma pin_CONS_COST : CONS_COST = src_CONS_COST. Proof. reflexivity. Qed.
Lemma pin_REST_COST : REST_COST = src_REST_COST. Proof. reflexivity. Qed.
Lemma pin_LISTP_COST : LISTP_COST = src_LISTP_COST. Proof. reflexivity. Qed.
Lemma pin_NEW_LISTP_COST : NEW_LISTP_COST = src_NEW_LISTP_COST. Proof. reflexivity. Qed.
Lemma pin_EQ_BASE_COST : EQ_BASE_COST = src_EQ_BASE_COST. Proof. reflexivity. Qed.
Lemma pin_EQ_COST_PER_BYTE : EQ_COST_PER_BYTE = src_EQ_COST_PER_BYTE. Proof. reflexivity. Qed.
Lemma pin_MALLOC_COST_PER_BYTE : MALLOC_COST_PER_BYTE = src_MALLOC_COST_PER_BYTE. Proof. reflexivity. Qed.
