(* Pins for C06: frozen statements, and the operand-size literals of the division family. *)
From Clvm Require Import Model.OpsArith Proofs.OpContractDefs Proofs.OpContractsMore Props.C06.
From Clvm Require Export Pins.C10consts.
Open Scope N_scope.

Check C06_div : forall L, lib_ok L -> forall f a m, op_div_malachite_with L f a m = op_div_num f a m.
Check C06_divmod : forall L, lib_ok L -> forall f a m, op_divmod_malachite_with L f a m = op_divmod_num f a m.
Check C06_mod : forall L, lib_ok L -> forall f a m, op_mod_malachite_with L f a m = op_mod_num f a m.
Check C06_modpow : forall L, lib_ok L -> forall f a m, op_modpow_malachite_with L f a m = op_modpow_num f a m.
Check C06_div_flag : forall f f' a m, same_but_malachite f f' -> op_div f a m = op_div f' a m.
Check C06_divmod_flag : forall f f' a m, same_but_malachite f f' -> op_divmod f a m = op_divmod f' a m.
Check C06_mod_flag : forall f f' a m, same_but_malachite f f' -> op_mod f a m = op_mod f' a m.
Check C06_modpow_flag : forall f f' a m, same_but_malachite f f' -> op_modpow f a m = op_modpow f' a m.

(* lib_ok asks exactly this of a library *)
Check (eq_refl : lib_ok = fun L =>
  (forall b, bl_of_bytes L b = int_of_bytes b) /\
  (forall z, bl_to_bytes L z = bytes_of_int z) /\
  (forall z, bl_is_zero L z = (z =? 0)%Z) /\
  (forall z, bl_is_neg L z = (z <? 0)%Z) /\
  (forall a b, b <> 0%Z -> bl_div_floor L a b = (a / b)%Z) /\
  (forall a b, b <> 0%Z -> bl_mod_floor L a b = (a mod b)%Z) /\
  (forall b e m, (0 <= e)%Z -> m <> 0%Z -> bl_modpow L b e m = modpow b e m)).

(* the switch really selects the malachite transcription under the flag *)
Lemma pin_switch : forall f a m,
  (f_malachite f = true -> op_div f a m = op_div_malachite f a m /\ op_modpow f a m = op_modpow_malachite f a m) /\
  (f_malachite f = false -> op_div f a m = op_div_num f a m /\ op_modpow f a m = op_modpow_num f a m).
Proof. intros f a m. unfold op_div, op_modpow. split; intros ->; split; reflexivity. Qed.
