(* Pins for C32: (1) frozen copies of the statements of Props/C32.v; (2) the literals of
   Model/OpsCrypto.v equal what the translator re-reads from /repo on this run
   (Gen/CryptoConsts.v). *)
From Clvm Require Import Model.OpsCrypto Model.Sha256 Model.Keccak Proofs.CryptoWrap Props.C32
  Gen.CryptoConsts.
Open Scope N_scope.

Check C32_mod_group_order : forall z,
  mod_group_order z = (z mod GROUP_ORDER)%Z /\ (0 <= mod_group_order z < GROUP_ORDER)%Z.
Check C32_coinid_amount : forall b, wf_bytes b = true ->
  coinid_amount_ok b = true <->
  (canonical_int b = true /\ (0 <= int_of_bytes b < 18446744073709551616)%Z).
Check C32_wrap_coinid : forall H f a m r, wf_sexp a = true ->
  op_coinid H f a m = Ok r <->
  exists parent puzzle amount t,
    a = Cons (Atom parent) (Cons (Atom puzzle) (Cons (Atom amount) (Atom t))) /\
    blen parent = 32 /\ blen puzzle = 32 /\
    canonical_int amount = true /\ (0 <= int_of_bytes amount < 18446744073709551616)%Z /\
    let h := H (parent ++ puzzle ++ amount) in
    r = (coinid_cost f + blen h * MALLOC_COST_PER_BYTE, Atom h).
Check C32_wrap_coinid_err : forall H f a m e, op_coinid H f a m = Err e -> e = InvalidOpArg 0.
Check C32_wrap_pubkey_for_exp : forall P f a m r,
  op_pubkey_for_exp P f a m = Ok r <->
  exists b t,
    a = Cons (Atom b) (Atom t) /\ pubkey_cost b <= m /\
    r = (pubkey_cost b + 48 * MALLOC_COST_PER_BYTE,
         Atom (p_g1_gen_mul P (int_of_bytes b mod GROUP_ORDER)%Z)).
Check C32_wrap_pubkey_for_exp_err : forall P f a m e,
  op_pubkey_for_exp P f a m = Err e -> e = InvalidOpArg 0 \/ e = CostExceeded.

(* the definitions the statements are written with *)
Lemma pin_defs : forall f b,
  coinid_cost f = (if f_new_cost_model f then NEW_COINID_COST else COINID_COST) /\
  pubkey_cost b = PUBKEY_BASE_COST + blen b * PUBKEY_COST_PER_BYTE.
Proof. intros f b. split; reflexivity. Qed.

(* constants *)
Lemma pin_group_order : GROUP_ORDER = src_GROUP_ORDER.
Proof. reflexivity. Qed.
Lemma pin_dst : DST_G1 = src_DST_G1 /\ DST_G2 = src_DST_G2.
Proof. split; reflexivity. Qed.
Lemma pin_sizes : src_G1_SIZE = 48 /\ src_G2_SIZE = 96 /\
  blen g1_infinity = src_G1_SIZE /\ blen g2_infinity = src_G2_SIZE.
Proof. repeat split. Qed.
Lemma pin_costs :
  [BLS_G1_SUBTRACT_BASE_COST; BLS_G1_SUBTRACT_COST_PER_ARG; BLS_G1_MULTIPLY_BASE_COST;
   BLS_G1_MULTIPLY_COST_PER_BYTE; NEW_BLS_G1_MULTIPLY_BASE_COST; NEW_BLS_G1_MULTIPLY_COST_PER_BYTE;
   BLS_G1_NEGATE_BASE_COST; BLS_G2_ADD_BASE_COST; BLS_G2_ADD_COST_PER_ARG;
   BLS_G2_SUBTRACT_BASE_COST; BLS_G2_SUBTRACT_COST_PER_ARG; BLS_G2_MULTIPLY_BASE_COST;
   BLS_G2_MULTIPLY_COST_PER_BYTE; NEW_BLS_G2_MULTIPLY_BASE_COST; NEW_BLS_G2_MULTIPLY_COST_PER_BYTE;
   BLS_G2_NEGATE_BASE_COST; BLS_MAP_TO_G1_BASE_COST; BLS_MAP_TO_G1_COST_PER_BYTE;
   BLS_MAP_TO_G1_COST_PER_DST_BYTE; NEW_BLS_MAP_TO_G1_COST_PER_BYTE;
   NEW_BLS_MAP_TO_G1_COST_PER_DST_BYTE; NEW_BLS_MAP_TO_G1_BASE_COST; BLS_MAP_TO_G2_BASE_COST;
   BLS_MAP_TO_G2_COST_PER_BYTE; BLS_MAP_TO_G2_COST_PER_DST_BYTE; NEW_BLS_MAP_TO_G2_COST_PER_BYTE;
   NEW_BLS_MAP_TO_G2_COST_PER_DST_BYTE; NEW_BLS_MAP_TO_G2_BASE_COST; BLS_PAIRING_BASE_COST;
   BLS_PAIRING_COST_PER_ARG; NEW_BLS_PAIRING_BASE_COST; NEW_BLS_PAIRING_COST_PER_ARG;
   SECP256R1_VERIFY_COST; SECP256K1_VERIFY_COST;
   KECCAK256_BASE_COST; KECCAK256_COST_PER_ARG; KECCAK256_COST_PER_BYTE;
   NEW_KECCAK256_BASE_COST; NEW_KECCAK256_COST_PER_ARG; NEW_KECCAK256_COST_PER_BYTE;
   POINT_ADD_BASE_COST; POINT_ADD_COST_PER_ARG; PUBKEY_BASE_COST; PUBKEY_COST_PER_BYTE;
   COINID_COST; NEW_COINID_COST; MALLOC_COST_PER_BYTE]
  =
  [src_BLS_G1_SUBTRACT_BASE_COST; src_BLS_G1_SUBTRACT_COST_PER_ARG; src_BLS_G1_MULTIPLY_BASE_COST;
   src_BLS_G1_MULTIPLY_COST_PER_BYTE; src_NEW_BLS_G1_MULTIPLY_BASE_COST; src_NEW_BLS_G1_MULTIPLY_COST_PER_BYTE;
   src_BLS_G1_NEGATE_BASE_COST; src_BLS_G2_ADD_BASE_COST; src_BLS_G2_ADD_COST_PER_ARG;
   src_BLS_G2_SUBTRACT_BASE_COST; src_BLS_G2_SUBTRACT_COST_PER_ARG; src_BLS_G2_MULTIPLY_BASE_COST;
   src_BLS_G2_MULTIPLY_COST_PER_BYTE; src_NEW_BLS_G2_MULTIPLY_BASE_COST; src_NEW_BLS_G2_MULTIPLY_COST_PER_BYTE;
   src_BLS_G2_NEGATE_BASE_COST; src_BLS_MAP_TO_G1_BASE_COST; src_BLS_MAP_TO_G1_COST_PER_BYTE;
   src_BLS_MAP_TO_G1_COST_PER_DST_BYTE; src_NEW_BLS_MAP_TO_G1_COST_PER_BYTE;
   src_NEW_BLS_MAP_TO_G1_COST_PER_DST_BYTE; src_NEW_BLS_MAP_TO_G1_BASE_COST; src_BLS_MAP_TO_G2_BASE_COST;
   src_BLS_MAP_TO_G2_COST_PER_BYTE; src_BLS_MAP_TO_G2_COST_PER_DST_BYTE; src_NEW_BLS_MAP_TO_G2_COST_PER_BYTE;
   src_NEW_BLS_MAP_TO_G2_COST_PER_DST_BYTE; src_NEW_BLS_MAP_TO_G2_BASE_COST; src_BLS_PAIRING_BASE_COST;
   src_BLS_PAIRING_COST_PER_ARG; src_NEW_BLS_PAIRING_BASE_COST; src_NEW_BLS_PAIRING_COST_PER_ARG;
   src_SECP256R1_VERIFY_COST; src_SECP256K1_VERIFY_COST;
   src_KECCAK256_BASE_COST; src_KECCAK256_COST_PER_ARG; src_KECCAK256_COST_PER_BYTE;
   src_NEW_KECCAK256_BASE_COST; src_NEW_KECCAK256_COST_PER_ARG; src_NEW_KECCAK256_COST_PER_BYTE;
   src_POINT_ADD_BASE_COST; src_POINT_ADD_COST_PER_ARG; src_PUBKEY_BASE_COST; src_PUBKEY_COST_PER_BYTE;
   src_COINID_COST; src_NEW_COINID_COST; src_MALLOC_COST_PER_BYTE].
Proof. reflexivity. Qed.
