(* Pins for C32: (1) frozen copies of the statements of Props/C32.v; (2) the literals of
   Model/OpsCrypto.v equal what the translator re-reads from /repo on this run
   (Gen/CryptoConsts.v). *)
From Coq Require Import Lia ZifyN ZifyNat ZifyBool.
From Clvm Require Import Model.OpsCrypto Model.Sha256 Model.Keccak Proofs.CryptoWrap Proofs.CryptoWrap2 Props.C32
  Gen.CryptoConsts.
Open Scope N_scope.

Check C32_mod_group_order : forall z,
  mod_group_order z = (z mod GROUP_ORDER)%Z /\ (0 <= mod_group_order z < GROUP_ORDER)%Z.
Check C32_coinid_amount : forall b, wf_bytes b = true ->
  coinid_amount_ok b = true <->
  (canonical_int b = true /\ (0 <= int_of_bytes b < 18446744073709551616)%Z).
Check C32_wrap_coinid : forall H f a m r, wf_sexp a = true ->
  op_coinid H f a m = Ok r <->
  exists parent puzzle amount t,
    a = Cons (Atom parent) (Cons (Atom puzzle) (Cons (Atom amount) (Atom t))) /\
    blen parent = 32 /\ blen puzzle = 32 /\
    canonical_int amount = true /\ (0 <= int_of_bytes amount < 18446744073709551616)%Z /\
    let h := H (parent ++ puzzle ++ amount) in
    r = (coinid_cost f + blen h * MALLOC_COST_PER_BYTE, Atom h).
Check C32_wrap_coinid_err : forall H f a m e, op_coinid H f a m = Err e -> e = InvalidOpArg 0.
Check C32_wrap_pubkey_for_exp : forall P f a m r,
  op_pubkey_for_exp P f a m = Ok r <->
  exists b t,
    a = Cons (Atom b) (Atom t) /\ pubkey_cost b <= m /\
    r = (pubkey_cost b + 48 * MALLOC_COST_PER_BYTE,
         Atom (p_g1_gen_mul P (int_of_bytes b mod GROUP_ORDER)%Z)).
Check C32_wrap_pubkey_for_exp_err : forall P f a m e,
  op_pubkey_for_exp P f a m = Err e -> e = InvalidOpArg 0 \/ e = CostExceeded.

Check C32_g1_point : forall P t b, g1_point P t = Ok b <-> t = Atom b /\ g1_ok P b.
Check C32_g2_point : forall P t b, g2_point P t = Ok b <-> t = Atom b /\ g2_ok P b.
Check C32_wrap_point_add : forall P f a m r,
  op_point_add P f a m = Ok r <->
  exists pts, arg_list a = map Atom pts /\ Forall (g1_ok P) pts /\
    let c := POINT_ADD_BASE_COST + N.of_nat (length pts) * POINT_ADD_COST_PER_ARG in
    (pts <> [] -> c <= m) /\
    r = (c + 48 * MALLOC_COST_PER_BYTE, Atom (fold_left (p_g1_add P) pts g1_infinity)).
Check C32_wrap_g2_add : forall P f a m r,
  op_bls_g2_add P f a m = Ok r <->
  BLS_G2_ADD_BASE_COST <= m /\
  exists pts, arg_list a = map Atom pts /\ Forall (g2_ok P) pts /\
    let c := BLS_G2_ADD_BASE_COST + N.of_nat (length pts) * BLS_G2_ADD_COST_PER_ARG in
    c <= m /\
    r = (c + 96 * MALLOC_COST_PER_BYTE, Atom (fold_left (p_g2_add P) pts g2_infinity)).
Check C32_wrap_g1_subtract : forall P f a m r,
  op_bls_g1_subtract P f a m = Ok r <->
  BLS_G1_SUBTRACT_BASE_COST <= m /\
  exists pts, arg_list a = map Atom pts /\ Forall (g1_ok P) pts /\
    let c := BLS_G1_SUBTRACT_BASE_COST + N.of_nat (length pts) * BLS_G1_SUBTRACT_COST_PER_ARG in
    c <= m /\
    r = (c + 48 * MALLOC_COST_PER_BYTE, Atom (sub_all (p_g1_add P) (p_g1_neg P) g1_infinity pts)).
Check C32_wrap_g2_subtract : forall P f a m r,
  op_bls_g2_subtract P f a m = Ok r <->
  BLS_G2_SUBTRACT_BASE_COST <= m /\
  exists pts, arg_list a = map Atom pts /\ Forall (g2_ok P) pts /\
    let c := BLS_G2_SUBTRACT_BASE_COST + N.of_nat (length pts) * BLS_G2_SUBTRACT_COST_PER_ARG in
    c <= m /\
    r = (c + 96 * MALLOC_COST_PER_BYTE, Atom (sub_all (p_g2_add P) (p_g2_neg P) g2_infinity pts)).
Check C32_wrap_g1_multiply : forall P f a m r,
  op_bls_g1_multiply P f a m = Ok r <->
  exists b s t,
    a = Cons (Atom b) (Cons (Atom s) (Atom t)) /\ g1_ok P b /\ scalar_too_long f s = false /\
    g1_mul_cost f s <= m /\
    r = (g1_mul_cost f s + 48 * MALLOC_COST_PER_BYTE,
         Atom (p_g1_mul P b (int_of_bytes s mod GROUP_ORDER)%Z)).
Check C32_wrap_g2_multiply : forall P f a m r,
  op_bls_g2_multiply P f a m = Ok r <->
  exists b s t,
    a = Cons (Atom b) (Cons (Atom s) (Atom t)) /\ g2_ok P b /\ scalar_too_long f s = false /\
    g2_mul_cost f s <= m /\
    r = (g2_mul_cost f s + 96 * MALLOC_COST_PER_BYTE,
         Atom (p_g2_mul P b (int_of_bytes s mod GROUP_ORDER)%Z)).
Check C32_wrap_negate : forall size base valid f a m r,
  negate_op size base valid f a m = Ok r <->
  exists b t,
    a = Cons (Atom b) (Atom t) /\ blen b = size /\ (f_relaxed_bls f = false -> valid b = true) /\
    r = (base + size * MALLOC_COST_PER_BYTE, Atom (if is_inf_flag b then b else flip_sign b)).
Check C32_wrap_g1_negate_strict : forall P f a m r,
  (forall b, g1_ok P b -> p_g1_neg P b = if is_inf_flag b then b else flip_sign b) ->
  f_relaxed_bls f = false ->
  op_bls_g1_negate P f a m = Ok r <->
  exists b t, a = Cons (Atom b) (Atom t) /\ g1_ok P b /\
    r = (BLS_G1_NEGATE_BASE_COST + 48 * MALLOC_COST_PER_BYTE, Atom (p_g1_neg P b)).
Check C32_wrap_g1_map : forall P f a m r,
  op_bls_map_to_g1 P f a m = Ok r <->
  exists msg dst, map_arg_shape DST_G1 a msg dst /\ g1_map_cost f msg dst <= m /\
    r = (g1_map_cost f msg dst + 48 * MALLOC_COST_PER_BYTE, Atom (p_g1_map P msg dst)).
Check C32_wrap_g2_map : forall P f a m r,
  op_bls_map_to_g2 P f a m = Ok r <->
  exists msg dst, map_arg_shape DST_G2 a msg dst /\
    (if f_new_cost_model f then NEW_BLS_MAP_TO_G2_BASE_COST else BLS_MAP_TO_G2_BASE_COST) <= m /\
    g2_map_cost f msg dst <= m /\
    r = (g2_map_cost f msg dst + 96 * MALLOC_COST_PER_BYTE, Atom (p_g2_map P msg dst)).
Check C32_wrap_keccak256 : forall P f a m r,
  op_keccak256 P f a m = Ok r <->
  exists chunks, arg_list a = map Atom chunks /\ (chunks <> [] -> keccak_cost f chunks <= m) /\
    let h := p_keccak256 P (concat chunks) in
    r = (keccak_cost f chunks + blen h * MALLOC_COST_PER_BYTE, Atom h).
Check C32_wrap_secp_ok : forall cost pk_ok sig_ok verify f a m r,
  secp_verify cost pk_ok sig_ok verify f a m = Ok r <->
  cost <= m /\ r = (cost, nil_s) /\
  exists pk msg sg, secp_args pk_ok sig_ok a pk msg sg /\ verify pk msg sg = true.
Check C32_wrap_secp_failed : forall cost pk_ok sig_ok verify f a m,
  secp_verify cost pk_ok sig_ok verify f a m = Err Secp256Failed <->
  cost <= m /\ exists pk msg sg, secp_args pk_ok sig_ok a pk msg sg /\ verify pk msg sg = false.
Check C32_wrap_secp_err : forall cost pk_ok sig_ok verify f a m e,
  secp_verify cost pk_ok sig_ok verify f a m = Err e ->
  e = CostExceeded \/ e = InvalidOpArg 0 \/ e = Secp256Failed.
Check C32_wrap_pairing_identity : forall P f a m r,
  op_bls_pairing_identity P f a m = Ok r <->
  exists items, a = nil_list (flat2 items) /\ Forall (pair_ok P) items /\
    pairing_cost f (length items) <= m /\ p_pairing_identity P items = true /\
    r = (pairing_cost f (length items), nil_s).
Check C32_wrap_pairing_identity_failed : forall P f a m,
  op_bls_pairing_identity P f a m = Err BLSPairingIdentityFailed <->
  exists items, a = nil_list (flat2 items) /\ Forall (pair_ok P) items /\
    pairing_cost f (length items) <= m /\ p_pairing_identity P items = false.
Check C32_wrap_bls_verify : forall P f a m r,
  op_bls_verify P f a m = Ok r <->
  exists sg items, verify_shape P a sg items /\ verify_cost f items <= m /\
    p_aggregate_verify P sg items = true /\ r = (verify_cost f items, nil_s).
Check C32_wrap_bls_verify_failed : forall P f a m,
  op_bls_verify P f a m = Err BLSVerifyFailed <->
  exists sg items, verify_shape P a sg items /\ verify_cost f items <= m /\
    p_aggregate_verify P sg items = false.

(* the definitions the statements are written with *)
Lemma pin_defs : forall f b,
  coinid_cost f = (if f_new_cost_model f then NEW_COINID_COST else COINID_COST) /\
  pubkey_cost b = PUBKEY_BASE_COST + blen b * PUBKEY_COST_PER_BYTE.
Proof. intros f b. split; reflexivity. Qed.

(* the vocabulary of the wrapper statements, frozen *)
Lemma pin_vocab : forall P f b s (pts : list bytes) items sg a msg dst (pk_ok sig_ok : bytes -> bool),
  (g1_ok P b <-> blen b = 48 /\ p_g1_valid P b = true) /\
  (g2_ok P b <-> blen b = 96 /\ p_g2_valid P b = true) /\
  sub_all (p_g1_add P) (p_g1_neg P) g1_infinity [] = g1_infinity /\
  (forall p r, sub_all (p_g1_add P) (p_g1_neg P) g1_infinity (p :: r) =
               fold_left (fun acc q => p_g1_add P acc (p_g1_neg P q)) r p) /\
  scalar_too_long f s = (f_limits f && negb (f_new_cost_model f) && (1024 <? blen s)) /\
  g1_mul_cost f s = (if f_new_cost_model f then NEW_BLS_G1_MULTIPLY_BASE_COST else BLS_G1_MULTIPLY_BASE_COST) +
                    blen s * (if f_new_cost_model f then NEW_BLS_G1_MULTIPLY_COST_PER_BYTE else BLS_G1_MULTIPLY_COST_PER_BYTE) /\
  g2_mul_cost f s = (if f_new_cost_model f then NEW_BLS_G2_MULTIPLY_BASE_COST else BLS_G2_MULTIPLY_BASE_COST) +
                    blen s * (if f_new_cost_model f then NEW_BLS_G2_MULTIPLY_COST_PER_BYTE else BLS_G2_MULTIPLY_COST_PER_BYTE) /\
  is_inf_flag (192 :: b) = true /\ is_inf_flag (128 :: b) = false /\ flip_sign (128 :: b) = 160 :: b /\
  (map_arg_shape DST_G1 a msg dst <->
     (exists t, a = Cons (Atom msg) (Atom t) /\ dst = DST_G1) \/
     (exists t, a = Cons (Atom msg) (Cons (Atom dst) (Atom t)))) /\
  g1_map_cost f msg dst =
    (if f_new_cost_model f
     then NEW_BLS_MAP_TO_G1_BASE_COST + blen msg * NEW_BLS_MAP_TO_G1_COST_PER_BYTE + blen dst * NEW_BLS_MAP_TO_G1_COST_PER_DST_BYTE
     else BLS_MAP_TO_G1_BASE_COST + blen msg * BLS_MAP_TO_G1_COST_PER_BYTE + blen dst * BLS_MAP_TO_G1_COST_PER_DST_BYTE) /\
  g2_map_cost f msg dst =
    (if f_new_cost_model f
     then NEW_BLS_MAP_TO_G2_BASE_COST + blen msg * NEW_BLS_MAP_TO_G2_COST_PER_BYTE + blen dst * NEW_BLS_MAP_TO_G2_COST_PER_DST_BYTE
     else BLS_MAP_TO_G2_BASE_COST + blen msg * BLS_MAP_TO_G2_COST_PER_BYTE + blen dst * BLS_MAP_TO_G2_COST_PER_DST_BYTE) /\
  keccak_cost f pts =
    (if f_new_cost_model f
     then NEW_KECCAK256_BASE_COST + N.of_nat (length pts) * NEW_KECCAK256_COST_PER_ARG + blen (concat pts) * NEW_KECCAK256_COST_PER_BYTE
     else KECCAK256_BASE_COST + N.of_nat (length pts) * KECCAK256_COST_PER_ARG + blen (concat pts) * KECCAK256_COST_PER_BYTE) /\
  (secp_args pk_ok sig_ok a b msg s <->
     (exists t, a = Cons (Atom b) (Cons (Atom msg) (Cons (Atom s) (Atom t)))) /\
     pk_ok b = true /\ blen msg = 32 /\ sig_ok s = true) /\
  op_secp256k1_verify P = secp_verify SECP256K1_VERIFY_COST (p_k1_pubkey_ok P) (p_k1_sig_ok P) (p_k1_verify P) /\
  op_secp256r1_verify P = secp_verify SECP256R1_VERIFY_COST (p_r1_pubkey_ok P) (p_r1_sig_ok P) (p_r1_verify P) /\
  op_bls_g1_negate P = negate_op 48 BLS_G1_NEGATE_BASE_COST (p_g1_valid P) /\
  op_bls_g2_negate P = negate_op 96 BLS_G2_NEGATE_BASE_COST (p_g2_valid P) /\
  nil_list (flat2 ((b, s) :: items)) = Cons (Atom b) (Cons (Atom s) (nil_list (flat2 items))) /\
  nil_list (flat2 []) = Atom [] /\
  (pair_ok P (b, s) <-> g1_ok P b /\ g2_ok P s) /\
  pairing_cost f (length items) =
    (if f_new_cost_model f then NEW_BLS_PAIRING_BASE_COST else BLS_PAIRING_BASE_COST) +
    N.of_nat (length items) * (if f_new_cost_model f then NEW_BLS_PAIRING_COST_PER_ARG else BLS_PAIRING_COST_PER_ARG) /\
  (verify_shape P a sg items <->
     a = Cons (Atom sg) (nil_list (flat2 items)) /\ g2_ok P sg /\ Forall (fun it => g1_ok P (fst it)) items) /\
  (forall cpa cpb cpd, verify_items_cost cpa cpb cpd ((b, msg) :: items) =
     cpa + blen msg * cpb + blen DST_G2 * cpd + verify_items_cost cpa cpb cpd items) /\
  verify_items_cost 1 1 1 [] = 0 /\ blen DST_G2 = 43 /\
  verify_cost f items =
    (if f_new_cost_model f then NEW_BLS_PAIRING_BASE_COST else BLS_PAIRING_BASE_COST) +
    verify_items_cost (if f_new_cost_model f then NEW_BLS_PAIRING_COST_PER_ARG else BLS_PAIRING_COST_PER_ARG)
                      (if f_new_cost_model f then NEW_BLS_MAP_TO_G2_COST_PER_BYTE else BLS_MAP_TO_G2_COST_PER_BYTE)
                      (if f_new_cost_model f then NEW_BLS_MAP_TO_G2_COST_PER_DST_BYTE else BLS_MAP_TO_G2_COST_PER_DST_BYTE)
                      items.
Proof.
  intros. repeat match goal with |- _ /\ _ => split end; try reflexivity; try (intros; reflexivity);
    try (destruct (f_new_cost_model f); reflexivity).
Qed.

(* constants *)
Lemma pin_group_order : GROUP_ORDER = src_GROUP_ORDER.
Proof. reflexivity. Qed.
Lemma pin_dst : DST_G1 = src_DST_G1 /\ DST_G2 = src_DST_G2.
Proof. split; reflexivity. Qed.
Lemma pin_sizes : src_G1_SIZE = 48 /\ src_G2_SIZE = 96 /\
  blen g1_infinity = src_G1_SIZE /\ blen g2_infinity = src_G2_SIZE.
Proof. repeat split. Qed.
Lemma pin_costs :
  [BLS_G1_SUBTRACT_BASE_COST; BLS_G1_SUBTRACT_COST_PER_ARG; BLS_G1_MULTIPLY_BASE_COST;
   BLS_G1_MULTIPLY_COST_PER_BYTE; NEW_BLS_G1_MULTIPLY_BASE_COST; NEW_BLS_G1_MULTIPLY_COST_PER_BYTE;
   BLS_G1_NEGATE_BASE_COST; BLS_G2_ADD_BASE_COST; BLS_G2_ADD_COST_PER_ARG;
   BLS_G2_SUBTRACT_BASE_COST; BLS_G2_SUBTRACT_COST_PER_ARG; BLS_G2_MULTIPLY_BASE_COST;
   BLS_G2_MULTIPLY_COST_PER_BYTE; NEW_BLS_G2_MULTIPLY_BASE_COST; NEW_BLS_G2_MULTIPLY_COST_PER_BYTE;
   BLS_G2_NEGATE_BASE_COST; BLS_MAP_TO_G1_BASE_COST; BLS_MAP_TO_G1_COST_PER_BYTE;
   BLS_MAP_TO_G1_COST_PER_DST_BYTE; NEW_BLS_MAP_TO_G1_COST_PER_BYTE;
   NEW_BLS_MAP_TO_G1_COST_PER_DST_BYTE; NEW_BLS_MAP_TO_G1_BASE_COST; BLS_MAP_TO_G2_BASE_COST;
   BLS_MAP_TO_G2_COST_PER_BYTE; BLS_MAP_TO_G2_COST_PER_DST_BYTE; NEW_BLS_MAP_TO_G2_COST_PER_BYTE;
   NEW_BLS_MAP_TO_G2_COST_PER_DST_BYTE; NEW_BLS_MAP_TO_G2_BASE_COST; BLS_PAIRING_BASE_COST;
   BLS_PAIRING_COST_PER_ARG; NEW_BLS_PAIRING_BASE_COST; NEW_BLS_PAIRING_COST_PER_ARG;
   SECP256R1_VERIFY_COST; SECP256K1_VERIFY_COST;
   KECCAK256_BASE_COST; KECCAK256_COST_PER_ARG; KECCAK256_COST_PER_BYTE;
   NEW_KECCAK256_BASE_COST; NEW_KECCAK256_COST_PER_ARG; NEW_KECCAK256_COST_PER_BYTE;
   POINT_ADD_BASE_COST; POINT_ADD_COST_PER_ARG; PUBKEY_BASE_COST; PUBKEY_COST_PER_BYTE;
   COINID_COST; NEW_COINID_COST; MALLOC_COST_PER_BYTE]
  =
  [src_BLS_G1_SUBTRACT_BASE_COST; src_BLS_G1_SUBTRACT_COST_PER_ARG; src_BLS_G1_MULTIPLY_BASE_COST;
   src_BLS_G1_MULTIPLY_COST_PER_BYTE; src_NEW_BLS_G1_MULTIPLY_BASE_COST; src_NEW_BLS_G1_MULTIPLY_COST_PER_BYTE;
   src_BLS_G1_NEGATE_BASE_COST; src_BLS_G2_ADD_BASE_COST; src_BLS_G2_ADD_COST_PER_ARG;
   src_BLS_G2_SUBTRACT_BASE_COST; src_BLS_G2_SUBTRACT_COST_PER_ARG; src_BLS_G2_MULTIPLY_BASE_COST;
   src_BLS_G2_MULTIPLY_COST_PER_BYTE; src_NEW_BLS_G2_MULTIPLY_BASE_COST; src_NEW_BLS_G2_MULTIPLY_COST_PER_BYTE;
   src_BLS_G2_NEGATE_BASE_COST; src_BLS_MAP_TO_G1_BASE_COST; src_BLS_MAP_TO_G1_COST_PER_BYTE;
   src_BLS_MAP_TO_G1_COST_PER_DST_BYTE; src_NEW_BLS_MAP_TO_G1_COST_PER_BYTE;
   src_NEW_BLS_MAP_TO_G1_COST_PER_DST_BYTE; src_NEW_BLS_MAP_TO_G1_BASE_COST; src_BLS_MAP_TO_G2_BASE_COST;
   src_BLS_MAP_TO_G2_COST_PER_BYTE; src_BLS_MAP_TO_G2_COST_PER_DST_BYTE; src_NEW_BLS_MAP_TO_G2_COST_PER_BYTE;
   src_NEW_BLS_MAP_TO_G2_COST_PER_DST_BYTE; src_NEW_BLS_MAP_TO_G2_BASE_COST; src_BLS_PAIRING_BASE_COST;
   src_BLS_PAIRING_COST_PER_ARG; src_NEW_BLS_PAIRING_BASE_COST; src_NEW_BLS_PAIRING_COST_PER_ARG;
   src_SECP256R1_VERIFY_COST; src_SECP256K1_VERIFY_COST;
   src_KECCAK256_BASE_COST; src_KECCAK256_COST_PER_ARG; src_KECCAK256_COST_PER_BYTE;
   src_NEW_KECCAK256_BASE_COST; src_NEW_KECCAK256_COST_PER_ARG; src_NEW_KECCAK256_COST_PER_BYTE;
   src_POINT_ADD_BASE_COST; src_POINT_ADD_COST_PER_ARG; src_PUBKEY_BASE_COST; src_PUBKEY_COST_PER_BYTE;
   src_COINID_COST; src_NEW_COINID_COST; src_MALLOC_COST_PER_BYTE].
Proof. reflexivity. Qed.
