(* Pins for C10: frozen copies of the statements of Props/C10.v, and (through Pins/C10consts.v)
   every cost literal of the models against the constants re-read from the source. *)
From Clvm Require Import Model.CostSpec Proofs.CostProofs Props.C10.
From Clvm Require Export Pins.C10consts.
Open Scope N_scope.

Check C10_add : forall f a m c v, op_add f a m = Ok (c, v) -> c = spec_add f a v.
Check C10_subtract : forall f a m c v, op_subtract f a m = Ok (c, v) -> c = spec_subtract f a v.
Check C10_multiply : forall f a m c v, op_multiply f a m = Ok (c, v) -> c = spec_multiply f a v.
Check C10_div : forall f a m c v, op_div f a m = Ok (c, v) -> c = spec_div f a v.
Check C10_divmod : forall f a m c v, op_divmod f a m = Ok (c, v) -> c = spec_divmod f a v.
Check C10_mod : forall f a m c v, op_mod f a m = Ok (c, v) -> c = spec_mod f a v.
Check C10_modpow : forall f a m c v, op_modpow f a m = Ok (c, v) -> c = spec_modpow f a v.
Check C10_gr : forall f a m c v, op_gr f a m = Ok (c, v) -> c = spec_gr f a v.
Check C10_gr_bytes : forall f a m c v, op_gr_bytes f a m = Ok (c, v) -> c = spec_gr_bytes f a v.
Check C10_strlen : forall f a m c v, op_strlen f a m = Ok (c, v) -> c = spec_strlen f a v.
Check C10_substr : forall f a m c v, op_substr f a m = Ok (c, v) -> c = spec_substr f a v.
Check C10_concat : forall f a m c v, op_concat f a m = Ok (c, v) -> c = spec_concat f a v.
Check C10_ash : (forall z, int_of_bytes (bytes_of_int z) = z) ->
  forall f a m c v, op_ash f a m = Ok (c, v) -> c = spec_ash f a v.
Check C10_lsh : (forall z, int_of_bytes (bytes_of_int z) = z) ->
  forall f a m c v, op_lsh f a m = Ok (c, v) -> c = spec_lsh f a v.
Check C10_lognot : forall f a m c v, op_lognot f a m = Ok (c, v) -> c = spec_lognot f a v.
Check C10_not : forall f a m c v, op_not f a m = Ok (c, v) -> c = spec_not f a v.
Check C10_any : forall f a m c v, op_any f a m = Ok (c, v) -> c = spec_any f a v.
Check C10_all : forall f a m c v, op_all f a m = Ok (c, v) -> c = spec_all f a v.
Check C10_sha256 : forall H f a m c v, (forall b, blen (H b) = 32) ->
  op_sha256 H f a m = Ok (c, v) -> c = spec_sha256 f a v.
Check C10_sha256tree : forall H f a m c v,
  op_sha256_tree H f a m = Ok (c, v) -> c = spec_sha256_tree f a v.
Check C10_if : forall f a m c v, op_if f a m = Ok (c, v) -> c = spec_if f a v.
Check C10_cons : forall f a m c v, op_cons f a m = Ok (c, v) -> c = spec_cons f a v.
Check C10_first : forall f a m c v, op_first f a m = Ok (c, v) -> c = spec_first f a v.
Check C10_rest : forall f a m c v, op_rest f a m = Ok (c, v) -> c = spec_rest f a v.
Check C10_listp : forall f a m c v, op_listp f a m = Ok (c, v) -> c = spec_listp f a v.
Check C10_eq : forall f a m c v, op_eq f a m = Ok (c, v) -> c = spec_eq f a v.
Check C10_logic : forall iv opf f a m c v,
  logic_docs_agree iv opf f a -> binop_reduction iv opf f a m = Ok (c, v) -> c = spec_logic iv opf f a v.
Check C10_logic_old : forall iv opf f a m c v,
  f_new_cost_model f = false -> binop_reduction iv opf f a m = Ok (c, v) -> c = spec_logic iv opf f a v.
Check C10_refuted_logic : let a := Cons (Atom [64; 0; 0]) (Cons (Atom [1]) (Atom [])) in
  let f := flags_of_N 0x2000 in
  op_logior f a U64_MAX = Ok (676, Atom [64; 0; 1]) /\ spec_logior f a (Atom [64; 0; 1]) = 670 /\
  ~ logic_docs_agree 0%Z Z.lor f a.
Check C10_refuted_logand : let a := Cons (Atom []) (Atom []) in
  let f := flags_of_N 0x2000 in
  op_logand f a U64_MAX = Ok (367, Atom []) /\ spec_logand f a (Atom []) = 364.
