(* Pins for C26: frozen statements and the literals of Model/PyGlue.v against what the
   translator reads from wheel/src/api.rs, src/allocator.rs, src/chia_dialect.rs,
   src/serde_2026 and wheel/python/clvm_rs/program.py on this run. *)
From Clvm Require Import Model.PyGlue Props.C26 Gen.PyConsts.
Open Scope N_scope.

Check C26_flags : forall w, flags_of_N (from_bits_truncate w) = flags_of_N w.
Check C26_undefined_bits : forall w b, N.land ALL_FLAG_BITS b = 0 -> N.land (from_bits_truncate w) b = 0.
Check C26_heap_limit : forall w,
  api_heap_limit (from_bits_truncate w) = if N.testbit w 2 then 500000000 else 4294967295.
Check C26_run : forall (core_run : N -> N -> sexp -> sexp -> N -> (N * sexp) + (errkind * sexp))
    p a pe ae max_cost flags,
  wf_sexp p = true -> wf_sexp a = true -> ser p = Some pe -> ser a = Some ae ->
  flags < 2 ^ 32 -> max_cost < 2 ^ 64 ->
  run_serialized_chia_program core_run pe ae max_cost flags =
    adapt_response (core_run (from_bits_truncate flags)
                             (if N.testbit flags 2 then 500000000 else 4294967295) p a max_cost).

Lemma pin_api_constants :
  ALL_FLAG_BITS = api_src_all_flag_bits /\
  BIT_LIMIT_HEAP = api_src_heap_flag_bit /\ api_src_heap_flag_bit = 2 ^ 2 /\
  API_LIMITED_HEAP = api_src_heap_limit /\ API_DEFAULT_HEAP = api_src_default_heap_limit /\
  MAGIC_2026 = api_src_magic_prefix /\ api_src_magic_prefix = py_src_magic_prefix /\
  fold_right N.lor 0 api_src_flag_bits = ALL_FLAG_BITS /\ length api_src_flag_bits = 13%nat.
Proof. vm_compute. repeat split. Qed.
