(* Pins: frozen copies of the C24 statements (a weakened theorem no longer type-checks here). *)
From Clvm Require Import Model.Intern Model.Classic Proofs.InternProofs Props.C24.

Check C24_tree_preserved : forall t, tree_of (intern_tree t) = Some t.
Check C24_same_serialization : forall t,
  match tree_of (intern_tree t) with Some t' => ser t' = ser t | None => False end.
Check C24_same_tree_hash : forall (H : bytes -> bytes) t,
  itree_hash H (intern_tree t) = Some (treehash H t).
Check C24_atoms_distinct : forall t, NoDup (it_atoms (intern_tree t)).
Check C24_pairs_distinct : forall t, exists pts,
  pair_trees (intern_tree t) = Some pts /\ length pts = length (it_pairs (intern_tree t)) /\ NoDup pts.
Check C24_atoms_exact : forall t b, In b (it_atoms (intern_tree t)) <-> In b (atoms_of t).
Check C24_pairs_exact : forall t s pts, pair_trees (intern_tree t) = Some pts ->
  (In s pts <-> In s (subpairs_of t)).
Check C24_counts : forall t,
  (forall la, NoDup la -> (forall b, In b la <-> In b (atoms_of t)) ->
     length (it_atoms (intern_tree t)) = length la) /\
  (forall lp, NoDup lp -> (forall s, In s lp <-> In s (subpairs_of t)) ->
     length (it_pairs (intern_tree t)) = length lp) /\
  (length (it_atoms (intern_tree t)) <= n_nodes t - n_pairs t)%nat /\
  (length (it_pairs (intern_tree t)) <= n_pairs t)%nat.
Check C24_table_order : forall t,
  it_atoms (intern_tree t) = dedup_into bytes_eqb [] (atoms_of t) /\
  pair_trees (intern_tree t) = Some (dedup_into sexp_eqb [] (subpairs_of t)).
Check C24_memo_unobservable : forall t st pts n,
  Inv (is_atoms st) (is_pairs st) pts -> node_tree (is_atoms st) pts n = Some t ->
  intern_rec t st = (n, st).

(* the specification vocabulary is what it says *)
Example pin_atoms_of : atoms_of (Cons (Atom [1%N]) (Cons (Atom []) (Atom [1%N]))) = [[1%N]; []; [1%N]].
Proof. reflexivity. Qed.
Example pin_subpairs_of :
  subpairs_of (Cons (Atom [1%N]) (Cons (Atom []) (Atom [1%N]))) =
    [Cons (Atom []) (Atom [1%N]); Cons (Atom [1%N]) (Cons (Atom []) (Atom [1%N]))].
Proof. reflexivity. Qed.
