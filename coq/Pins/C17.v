(* Pins for C17: frozen copies of the statements in Props/C17.v. *)
From Clvm Require Import Model.BackRef Model.ReadCache Model.SerBR Proofs.BackRefEmit Proofs.SerBRProofs Proofs.SerBRTotal Props.C17.
Open Scope N_scope.

Check C17_emit_ok : forall P t bs rest, enc P [] t bs ->
  de_br_spec (bs ++ rest) = Ok (t, rest) /\
  snd (node_from_stream_backrefs (bs ++ rest)) = Ok (t, rest) /\
  snd (node_from_stream_backrefs_old (bs ++ rest)) = Ok (t, rest) /\
  serialized_length_from_bytes (bs ++ rest) = Ok (blen bs).

Check C17_format_never_grows : forall stk t bs, enc short_ok stk t bs ->
  forall e, ser t = Some e -> blen bs <= blen e.

Check C17_enc_canonical : forall P t bs, enc P [] t bs -> is_canonical_serialization bs = BTrue.

Check C17_roundtrip : forall H,
  (forall t1 t2, treehash H t1 = treehash H t2 -> t1 = t2) ->
  forall t bs, wf_sexp t = true -> node_to_bytes_backrefs H t = Ok bs ->
  de_br_spec bs = Ok (t, []) /\
  snd (node_from_stream_backrefs bs) = Ok (t, []) /\
  snd (node_from_stream_backrefs_old bs) = Ok (t, []) /\
  serialized_length_from_bytes bs = Ok (blen bs).

Check C17_never_grows : forall H,
  (forall t1 t2, treehash H t1 = treehash H t2 -> t1 = t2) ->
  forall t bs e, wf_sexp t = true -> node_to_bytes_backrefs H t = Ok bs ->
  ser t = Some e -> blen e < 4294967291 -> blen bs <= blen e.

Check C17_canonical : forall H,
  (forall t1 t2, treehash H t1 = treehash H t2 -> t1 = t2) ->
  forall t bs, wf_sexp t = true -> node_to_bytes_backrefs H t = Ok bs ->
  is_canonical_serialization bs = BTrue.

Check C17_idempotent : forall H,
  (forall t1 t2, treehash H t1 = treehash H t2 -> t1 = t2) ->
  forall t bs t' rest, wf_sexp t = true -> node_to_bytes_backrefs H t = Ok bs ->
  snd (node_from_stream_backrefs bs) = Ok (t', rest) -> node_to_bytes_backrefs H t' = Ok bs.

(* the encoding relation has exactly the three documented forms (atom, 0xff pair, 0xfe path) *)
Check enc_atom : forall (P : sexp -> bytes -> Prop) stk b e, wf_bytes b = true -> ser_atom b = Some e -> enc P stk (Atom b) e.
Check enc_pair : forall (P : sexp -> bytes -> Prop) stk l r el er,
  enc P stk l el -> enc P (l :: stk) r er -> enc P stk (Cons l r) (0xff :: el ++ er).
Check enc_ref : forall (P : sexp -> bytes -> Prop) stk t path pe c, wf_bytes path = true -> ser_atom path = Some pe ->
  traverse_path path (stack_list stk) = Ok (c, t) -> P t pe -> enc P stk t (0xfe :: pe).

Check (C17_total : forall H,
  (forall t1 t2, treehash H t1 = treehash H t2 -> t1 = t2) ->
  forall t, atoms_u32 t = true -> 6 * N.of_nat (n_nodes t) + 1 <= 4294967295 ->
  exists bs, node_to_bytes_backrefs H t = Ok bs).

Check (C17_find_path_total : forall (H : bytes -> bytes) s id len, exists r, find_path s id len = Ok r).

Check (C17_all : forall H,
  (forall t1 t2, treehash H t1 = treehash H t2 -> t1 = t2) ->
  forall t, wf_sexp t = true -> atoms_u32 t = true -> 6 * N.of_nat (n_nodes t) + 1 <= 4294967295 ->
  exists bs, node_to_bytes_backrefs H t = Ok bs /\
    de_br_spec bs = Ok (t, []) /\
    snd (node_from_stream_backrefs bs) = Ok (t, []) /\
    snd (node_from_stream_backrefs_old bs) = Ok (t, []) /\
    serialized_length_from_bytes bs = Ok (blen bs) /\
    is_canonical_serialization bs = BTrue /\
    (forall e, ser t = Some e -> blen e < 4294967291 -> blen bs <= blen e) /\
    (forall t' rest, snd (node_from_stream_backrefs bs) = Ok (t', rest) -> node_to_bytes_backrefs H t' = Ok bs)).

Check (eq_refl : atoms_u32 = fix f (t : sexp) : bool :=
  match t with Atom b => blen b <? 4294967291 | Cons l r => f l && f r end).
