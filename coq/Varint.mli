open BinInt
open BinNums
open Bstr
open Datatypes
open List

type vres =
| VOk of coq_Z * bytes
| VErr
| VPanic

val total_value_bits : coq_Z -> coq_Z

val class_min : coq_Z -> coq_Z

val class_max : coq_Z -> coq_Z

val fits_class : coq_Z -> coq_Z -> bool

val find_class : nat -> coq_Z -> coq_Z -> coq_Z option

val varint_size : coq_Z -> coq_Z option

val tail_bytes : nat -> coq_Z -> bytes

val first_prefix : coq_Z -> coq_Z

val write_varint : coq_Z -> bytes option

val leading_ones_from : nat -> coq_Z -> coq_Z -> coq_Z

val leading_ones : coq_Z -> coq_Z

val read_varint : bool -> bytes -> vres
