
(** val negb : bool -> bool **)

let negb = function
| true -> false
| false -> true

type nat =
| O
| S of nat

(** val fst : ('a1 * 'a2) -> 'a1 **)

let fst = function
| (x, _) -> x

(** val snd : ('a1 * 'a2) -> 'a2 **)

let snd = function
| (_, y) -> y

(** val length : 'a1 list -> nat **)

let rec length = function
| [] -> O
| _ :: l' -> S (length l')

(** val app : 'a1 list -> 'a1 list -> 'a1 list **)

let rec app l m =
  match l with
  | [] -> m
  | a :: l1 -> a :: (app l1 m)

type comparison =
| Eq
| Lt
| Gt

(** val coq_CompOpp : comparison -> comparison **)

let coq_CompOpp = function
| Eq -> Eq
| Lt -> Gt
| Gt -> Lt
