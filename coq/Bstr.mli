open BinNat
open BinNums
open Datatypes
open List

type bytes = coq_N list

val wf_byte : coq_N -> bool

val wf_bytes : bytes -> bool

val bytes_eqb : bytes -> bytes -> bool

val take_exact : nat -> 'a1 list -> ('a1 list * 'a1 list) option

val be_acc : coq_N -> bytes -> coq_N

val be_value : bytes -> coq_N

val leading_ones_from8 : nat -> coq_N -> coq_N -> coq_N

val leading_ones8 : coq_N -> coq_N

val blen : bytes -> coq_N

val take_n : coq_N -> bytes -> (bytes * bytes) option
