
type positive =
| Coq_xI of positive
| Coq_xO of positive
| Coq_xH

type coq_N =
| N0
| Npos of positive

type coq_Z =
| Z0
| Zpos of positive
| Zneg of positive
