open BinNums

type errkind =
| SerializationError
| SerializationBackrefError
| OutOfMemory
| PathIntoAtom
| TooManyPairs
| TooManyAtoms
| CostExceeded
| UnknownSoftforkExtension
| SoftforkCostMismatch
| InternalError of coq_N
| Raise
| InvalidNilTerminator
| DivisionByZero
| ValueStackLimit
| EnvStackLimit
| ShiftTooLarge
| Reserved
| Invalid
| Unimplemented
| InvalidOpArg of coq_N
| InvalidAllocArg of coq_N
| BLSPairingIdentityFailed
| BLSVerifyFailed
| Secp256Failed
| SoftforkStackDepth
| Panic of coq_N
| Overflow of coq_N
| OutOfFuel
| Unsupported

type 'a res =
| Ok of 'a
| Err of errkind

(** val bind : 'a1 res -> ('a1 -> 'a2 res) -> 'a2 res **)

let bind m f =
  match m with
  | Ok a -> f a
  | Err e -> Err e

(** val res_map : ('a1 -> 'a2) -> 'a1 res -> 'a2 res **)

let res_map f = function
| Ok a -> Ok (f a)
| Err e -> Err e
