open BinInt
open BinNums
open Bstr
open Datatypes
open List

type vres =
| VOk of coq_Z * bytes
| VErr
| VPanic

(** val total_value_bits : coq_Z -> coq_Z **)

let total_value_bits k =
  Z.add (Zpos (Coq_xI (Coq_xI Coq_xH)))
    (Z.mul (Zpos (Coq_xI (Coq_xI Coq_xH))) k)

(** val class_min : coq_Z -> coq_Z **)

let class_min k =
  Z.opp (Z.shiftl (Zpos Coq_xH) (Z.sub (total_value_bits k) (Zpos Coq_xH)))

(** val class_max : coq_Z -> coq_Z **)

let class_max k =
  Z.sub (Z.shiftl (Zpos Coq_xH) (Z.sub (total_value_bits k) (Zpos Coq_xH)))
    (Zpos Coq_xH)

(** val fits_class : coq_Z -> coq_Z -> bool **)

let fits_class k v =
  negb ((||) (Z.ltb v (class_min k)) (Z.gtb v (class_max k)))

(** val find_class : nat -> coq_Z -> coq_Z -> coq_Z option **)

let rec find_class n k v =
  match n with
  | O -> None
  | S n' ->
    if fits_class k v then Some k else find_class n' (Z.add k (Zpos Coq_xH)) v

(** val varint_size : coq_Z -> coq_Z option **)

let varint_size v =
  match find_class (S (S (S (S (S (S (S (S O)))))))) Z0 v with
  | Some k -> Some (Z.add k (Zpos Coq_xH))
  | None -> None

(** val tail_bytes : nat -> coq_Z -> bytes **)

let rec tail_bytes k u =
  match k with
  | O -> []
  | S i ->
    (Z.to_N
      (Z.modulo
        (Z.shiftr u
          (Z.mul (Z.of_nat i) (Zpos (Coq_xO (Coq_xO (Coq_xO Coq_xH))))))
        (Zpos (Coq_xO (Coq_xO (Coq_xO (Coq_xO (Coq_xO (Coq_xO (Coq_xO (Coq_xO
        Coq_xH))))))))))) :: (tail_bytes i u)

(** val first_prefix : coq_Z -> coq_Z **)

let first_prefix k =
  if Z.ltb Z0 k
  then Z.modulo
         (Z.mul (Z.sub (Z.shiftl (Zpos Coq_xH) k) (Zpos Coq_xH))
           (Z.pow (Zpos (Coq_xO Coq_xH))
             (Z.sub (Zpos (Coq_xO (Coq_xO (Coq_xO Coq_xH)))) k))) (Zpos
         (Coq_xO (Coq_xO (Coq_xO (Coq_xO (Coq_xO (Coq_xO (Coq_xO (Coq_xO
         Coq_xH)))))))))
  else Z0

(** val write_varint : coq_Z -> bytes option **)

let write_varint v =
  match find_class (S (S (S (S (S (S (S (S O)))))))) Z0 v with
  | Some k ->
    let tvb = total_value_bits k in
    let u = if Z.ltb v Z0 then Z.add v (Z.shiftl (Zpos Coq_xH) tvb) else v in
    let high =
      Z.modulo
        (Z.shiftr u (Z.mul k (Zpos (Coq_xO (Coq_xO (Coq_xO Coq_xH)))))) (Zpos
        (Coq_xO (Coq_xO (Coq_xO (Coq_xO (Coq_xO (Coq_xO (Coq_xO (Coq_xO
        Coq_xH)))))))))
    in
    let first = Z.coq_lor (first_prefix k) high in
    Some ((Z.to_N first) :: (tail_bytes (Z.to_nat k) u))
  | None -> None

(** val leading_ones_from : nat -> coq_Z -> coq_Z -> coq_Z **)

let rec leading_ones_from n bit b =
  match n with
  | O -> Z0
  | S n' ->
    if Z.testbit b bit
    then Z.add (Zpos Coq_xH)
           (leading_ones_from n' (Z.sub bit (Zpos Coq_xH)) b)
    else Z0

(** val leading_ones : coq_Z -> coq_Z **)

let leading_ones b =
  leading_ones_from (S (S (S (S (S (S (S (S O)))))))) (Zpos (Coq_xI (Coq_xI
    Coq_xH))) b

(** val read_varint : bool -> bytes -> vres **)

let read_varint strict = function
| [] -> VErr
| b0 :: r ->
  let b1 = Z.of_N b0 in
  let k = leading_ones b1 in
  if Z.leb (Zpos (Coq_xO (Coq_xO (Coq_xO Coq_xH)))) k
  then VErr
  else let bits_in_first = Z.sub (Zpos (Coq_xI (Coq_xI Coq_xH))) k in
       let tvb = total_value_bits k in
       let mask = Z.sub (Z.shiftl (Zpos Coq_xH) bits_in_first) (Zpos Coq_xH)
       in
       (match take_exact (Z.to_nat k) r with
        | Some p ->
          let (extra, rest) = p in
          let u =
            fold_left (fun acc b ->
              Z.coq_lor
                (Z.shiftl acc (Zpos (Coq_xO (Coq_xO (Coq_xO Coq_xH)))))
                (Z.of_N b)) extra (Z.coq_land b1 mask)
          in
          let sign_bit = Z.shiftl (Zpos Coq_xH) (Z.sub tvb (Zpos Coq_xH)) in
          let v =
            if Z.geb u sign_bit
            then Z.sub u (Z.shiftl (Zpos Coq_xH) tvb)
            else u
          in
          if strict
          then (match varint_size v with
                | Some sz ->
                  if negb (Z.eqb sz (Z.add k (Zpos Coq_xH)))
                  then VErr
                  else VOk (v, rest)
                | None -> VPanic)
          else VOk (v, rest)
        | None -> VErr)
