open Datatypes

val add : nat -> nat -> nat

val mul : nat -> nat -> nat
