open BinNat
open BinNums
open Bstr
open Datatypes
open Err
open List
open Nat
open Sexp

(** val atom_prefix : coq_N -> coq_N -> bytes option **)

let atom_prefix atom_1 size =
  if N.eqb size N0
  then Some ((Npos (Coq_xO (Coq_xO (Coq_xO (Coq_xO (Coq_xO (Coq_xO (Coq_xO
         Coq_xH)))))))) :: [])
  else if (&&) (N.eqb size (Npos Coq_xH))
            (N.ltb atom_1 (Npos (Coq_xO (Coq_xO (Coq_xO (Coq_xO (Coq_xO
              (Coq_xO (Coq_xO Coq_xH)))))))))
       then Some []
       else if N.ltb size (Npos (Coq_xO (Coq_xO (Coq_xO (Coq_xO (Coq_xO
                 (Coq_xO Coq_xH)))))))
            then Some
                   ((N.coq_lor (Npos (Coq_xO (Coq_xO (Coq_xO (Coq_xO (Coq_xO
                      (Coq_xO (Coq_xO Coq_xH)))))))) size) :: [])
            else if N.ltb size (Npos (Coq_xO (Coq_xO (Coq_xO (Coq_xO (Coq_xO
                      (Coq_xO (Coq_xO (Coq_xO (Coq_xO (Coq_xO (Coq_xO (Coq_xO
                      (Coq_xO Coq_xH))))))))))))))
                 then Some
                        ((N.coq_lor (Npos (Coq_xO (Coq_xO (Coq_xO (Coq_xO
                           (Coq_xO (Coq_xO (Coq_xI Coq_xH))))))))
                           (N.shiftr size (Npos (Coq_xO (Coq_xO (Coq_xO
                             Coq_xH)))))) :: ((N.modulo size (Npos (Coq_xO
                                                (Coq_xO (Coq_xO (Coq_xO
                                                (Coq_xO (Coq_xO (Coq_xO
                                                (Coq_xO Coq_xH)))))))))) :: []))
                 else if N.ltb size (Npos (Coq_xO (Coq_xO (Coq_xO (Coq_xO
                           (Coq_xO (Coq_xO (Coq_xO (Coq_xO (Coq_xO (Coq_xO
                           (Coq_xO (Coq_xO (Coq_xO (Coq_xO (Coq_xO (Coq_xO
                           (Coq_xO (Coq_xO (Coq_xO (Coq_xO
                           Coq_xH)))))))))))))))))))))
                      then Some
                             ((N.coq_lor (Npos (Coq_xO (Coq_xO (Coq_xO
                                (Coq_xO (Coq_xO (Coq_xI (Coq_xI
                                Coq_xH))))))))
                                (N.shiftr size (Npos (Coq_xO (Coq_xO (Coq_xO
                                  (Coq_xO Coq_xH))))))) :: ((N.coq_land
                                                              (N.shiftr size
                                                                (Npos (Coq_xO
                                                                (Coq_xO
                                                                (Coq_xO
                                                                Coq_xH)))))
                                                              (Npos (Coq_xI
                                                              (Coq_xI (Coq_xI
                                                              (Coq_xI (Coq_xI
                                                              (Coq_xI (Coq_xI
                                                              Coq_xH))))))))) :: (
                             (N.coq_land size (Npos (Coq_xI (Coq_xI (Coq_xI
                               (Coq_xI (Coq_xI (Coq_xI (Coq_xI Coq_xH))))))))) :: [])))
                      else if N.ltb size (Npos (Coq_xO (Coq_xO (Coq_xO
                                (Coq_xO (Coq_xO (Coq_xO (Coq_xO (Coq_xO
                                (Coq_xO (Coq_xO (Coq_xO (Coq_xO (Coq_xO
                                (Coq_xO (Coq_xO (Coq_xO (Coq_xO (Coq_xO
                                (Coq_xO (Coq_xO (Coq_xO (Coq_xO (Coq_xO
                                (Coq_xO (Coq_xO (Coq_xO (Coq_xO
                                Coq_xH))))))))))))))))))))))))))))
                           then Some
                                  ((N.coq_lor (Npos (Coq_xO (Coq_xO (Coq_xO
                                     (Coq_xO (Coq_xI (Coq_xI (Coq_xI
                                     Coq_xH))))))))
                                     (N.shiftr size (Npos (Coq_xO (Coq_xO
                                       (Coq_xO (Coq_xI Coq_xH))))))) :: (
                                  (N.coq_land
                                    (N.shiftr size (Npos (Coq_xO (Coq_xO
                                      (Coq_xO (Coq_xO Coq_xH)))))) (Npos
                                    (Coq_xI (Coq_xI (Coq_xI (Coq_xI (Coq_xI
                                    (Coq_xI (Coq_xI Coq_xH))))))))) :: (
                                  (N.coq_land
                                    (N.shiftr size (Npos (Coq_xO (Coq_xO
                                      (Coq_xO Coq_xH))))) (Npos (Coq_xI
                                    (Coq_xI (Coq_xI (Coq_xI (Coq_xI (Coq_xI
                                    (Coq_xI Coq_xH))))))))) :: ((N.coq_land
                                                                  size (Npos
                                                                  (Coq_xI
                                                                  (Coq_xI
                                                                  (Coq_xI
                                                                  (Coq_xI
                                                                  (Coq_xI
                                                                  (Coq_xI
                                                                  (Coq_xI
                                                                  Coq_xH))))))))) :: []))))
                           else if N.ltb size (Npos (Coq_xO (Coq_xO (Coq_xO
                                     (Coq_xO (Coq_xO (Coq_xO (Coq_xO (Coq_xO
                                     (Coq_xO (Coq_xO (Coq_xO (Coq_xO (Coq_xO
                                     (Coq_xO (Coq_xO (Coq_xO (Coq_xO (Coq_xO
                                     (Coq_xO (Coq_xO (Coq_xO (Coq_xO (Coq_xO
                                     (Coq_xO (Coq_xO (Coq_xO (Coq_xO (Coq_xO
                                     (Coq_xO (Coq_xO (Coq_xO (Coq_xO (Coq_xO
                                     (Coq_xO
                                     Coq_xH)))))))))))))))))))))))))))))))))))
                                then Some
                                       ((N.coq_lor (Npos (Coq_xO (Coq_xO
                                          (Coq_xO (Coq_xI (Coq_xI (Coq_xI
                                          (Coq_xI Coq_xH))))))))
                                          (N.shiftr size (Npos (Coq_xO
                                            (Coq_xO (Coq_xO (Coq_xO (Coq_xO
                                            Coq_xH)))))))) :: ((N.coq_land
                                                                 (N.shiftr
                                                                   size (Npos
                                                                   (Coq_xO
                                                                   (Coq_xO
                                                                   (Coq_xO
                                                                   (Coq_xI
                                                                   Coq_xH))))))
                                                                 (Npos
                                                                 (Coq_xI
                                                                 (Coq_xI
                                                                 (Coq_xI
                                                                 (Coq_xI
                                                                 (Coq_xI
                                                                 (Coq_xI
                                                                 (Coq_xI
                                                                 Coq_xH))))))))) :: (
                                       (N.coq_land
                                         (N.shiftr size (Npos (Coq_xO (Coq_xO
                                           (Coq_xO (Coq_xO Coq_xH)))))) (Npos
                                         (Coq_xI (Coq_xI (Coq_xI (Coq_xI
                                         (Coq_xI (Coq_xI (Coq_xI
                                         Coq_xH))))))))) :: ((N.coq_land
                                                               (N.shiftr size
                                                                 (Npos
                                                                 (Coq_xO
                                                                 (Coq_xO
                                                                 (Coq_xO
                                                                 Coq_xH)))))
                                                               (Npos (Coq_xI
                                                               (Coq_xI
                                                               (Coq_xI
                                                               (Coq_xI
                                                               (Coq_xI
                                                               (Coq_xI
                                                               (Coq_xI
                                                               Coq_xH))))))))) :: (
                                       (N.coq_land size (Npos (Coq_xI (Coq_xI
                                         (Coq_xI (Coq_xI (Coq_xI (Coq_xI
                                         (Coq_xI Coq_xH))))))))) :: [])))))
                                else None

(** val atom_0 : bytes -> coq_N **)

let atom_0 = function
| [] -> N0
| x :: _ -> x

(** val ser_atom : bytes -> bytes option **)

let ser_atom b =
  match atom_prefix (atom_0 b) (blen b) with
  | Some p -> Some (app p b)
  | None -> None

(** val ser : sexp -> bytes option **)

let rec ser = function
| Atom b -> ser_atom b
| Cons (l, r) ->
  (match ser l with
   | Some a ->
     (match ser r with
      | Some c ->
        Some ((Npos (Coq_xI (Coq_xI (Coq_xI (Coq_xI (Coq_xI (Coq_xI (Coq_xI
          Coq_xH)))))))) :: (app a c))
      | None -> None)
   | None -> None)

type lwriter = { lw_out : bytes; lw_limit : coq_N }

(** val lw_write : lwriter -> bytes -> lwriter option **)

let lw_write w chunk = match chunk with
| [] -> Some w
| _ :: _ ->
  if N.ltb w.lw_limit (blen chunk)
  then None
  else Some { lw_out = (app w.lw_out chunk); lw_limit =
         (N.sub w.lw_limit (blen chunk)) }

(** val lw_write_atom : lwriter -> bytes -> lwriter res **)

let lw_write_atom w b =
  match atom_prefix (atom_0 b) (blen b) with
  | Some p ->
    (match lw_write w p with
     | Some w1 ->
       (match lw_write w1 b with
        | Some w2 -> Ok w2
        | None -> Err OutOfMemory)
     | None -> Err OutOfMemory)
  | None -> Err SerializationError

(** val node_to_stream : nat -> sexp list -> lwriter -> lwriter res **)

let rec node_to_stream fuel values w =
  match fuel with
  | O -> Err OutOfFuel
  | S f ->
    (match values with
     | [] -> Ok w
     | s :: vs ->
       (match s with
        | Atom b ->
          bind (lw_write_atom w b) (fun w1 -> node_to_stream f vs w1)
        | Cons (l, r) ->
          (match lw_write w ((Npos (Coq_xI (Coq_xI (Coq_xI (Coq_xI (Coq_xI
                   (Coq_xI (Coq_xI Coq_xH)))))))) :: []) with
           | Some w1 -> node_to_stream f (l :: (r :: vs)) w1
           | None -> Err OutOfMemory)))

(** val node_to_bytes_limit : sexp -> coq_N -> bytes res **)

let node_to_bytes_limit t limit =
  res_map (fun l -> l.lw_out)
    (node_to_stream (add (mul (S (S O)) (n_nodes t)) (S O)) (t :: [])
      { lw_out = []; lw_limit = limit })

(** val node_to_bytes : sexp -> bytes res **)

let node_to_bytes t =
  node_to_bytes_limit t (Npos (Coq_xO (Coq_xO (Coq_xO (Coq_xO (Coq_xO (Coq_xO
    (Coq_xO (Coq_xI (Coq_xO (Coq_xO (Coq_xI (Coq_xO (Coq_xO (Coq_xO (Coq_xO
    (Coq_xI (Coq_xO (Coq_xI (Coq_xI (Coq_xI Coq_xH)))))))))))))))))))))

(** val acc_size : bytes -> coq_N **)

let acc_size bs =
  fold_left (fun acc b ->
    N.add (N.shiftl acc (Npos (Coq_xO (Coq_xO (Coq_xO Coq_xH))))) b) bs N0

(** val decode_size_with_offset :
    coq_N -> bytes -> ((coq_N * coq_N) * bytes) res **)

let decode_size_with_offset initial_b rest =
  if N.eqb
       (N.coq_land initial_b (Npos (Coq_xO (Coq_xO (Coq_xO (Coq_xO (Coq_xO
         (Coq_xO (Coq_xO Coq_xH))))))))) N0
  then Err (InternalError (Npos Coq_xH))
  else let k = leading_ones8 initial_b in
       if N.leb (Npos (Coq_xO (Coq_xO (Coq_xO Coq_xH)))) k
       then Err SerializationError
       else let b =
              N.coq_land initial_b
                (N.shiftr (Npos (Coq_xI (Coq_xI (Coq_xI (Coq_xI (Coq_xI
                  (Coq_xI (Coq_xI Coq_xH)))))))) k)
            in
            (match take_exact (N.to_nat (N.sub k (Npos Coq_xH))) rest with
             | Some p ->
               let (more, rest') = p in
               if N.ltb (Npos (Coq_xO (Coq_xI Coq_xH))) k
               then Err SerializationError
               else let size = acc_size (b :: more) in
                    if N.leb (Npos (Coq_xO (Coq_xO (Coq_xO (Coq_xO (Coq_xO
                         (Coq_xO (Coq_xO (Coq_xO (Coq_xO (Coq_xO (Coq_xO
                         (Coq_xO (Coq_xO (Coq_xO (Coq_xO (Coq_xO (Coq_xO
                         (Coq_xO (Coq_xO (Coq_xO (Coq_xO (Coq_xO (Coq_xO
                         (Coq_xO (Coq_xO (Coq_xO (Coq_xO (Coq_xO (Coq_xO
                         (Coq_xO (Coq_xO (Coq_xO (Coq_xO (Coq_xO
                         Coq_xH))))))))))))))))))))))))))))))))))) size
                    then Err SerializationError
                    else Ok ((k, size), rest')
             | None -> Err SerializationError)

(** val decode_size : coq_N -> bytes -> (coq_N * bytes) res **)

let decode_size initial_b rest =
  bind (decode_size_with_offset initial_b rest) (fun x ->
    let (p, rest') = x in let (_, size) = p in Ok (size, rest'))

(** val parse_atom_node : coq_N -> bytes -> (bytes * bytes) res **)

let parse_atom_node first rest =
  if N.eqb first (Npos Coq_xH)
  then Ok (((Npos Coq_xH) :: []), rest)
  else if N.eqb first (Npos (Coq_xO (Coq_xO (Coq_xO (Coq_xO (Coq_xO (Coq_xO
            (Coq_xO Coq_xH))))))))
       then Ok ([], rest)
       else if N.leb first (Npos (Coq_xI (Coq_xI (Coq_xI (Coq_xI (Coq_xI
                 (Coq_xI Coq_xH)))))))
            then Ok ((first :: []), rest)
            else bind (decode_size first rest) (fun x ->
                   let (size, rest') = x in
                   (match take_n size rest' with
                    | Some p -> Ok p
                    | None -> Err SerializationError))

type parse_op =
| OpSExp
| OpCons

(** val de_loop :
    (coq_N -> bytes -> ('a1 * bytes) res) -> ('a1 -> 'a1 -> 'a1) -> nat ->
    parse_op list -> 'a1 list -> bytes -> ('a1 * bytes) res **)

let rec de_loop read_atom mk_pair fuel ops vals bs =
  match fuel with
  | O -> Err OutOfFuel
  | S f ->
    (match ops with
     | [] ->
       (match vals with
        | [] -> Err (Panic (Npos Coq_xH))
        | v :: _ -> Ok (v, bs))
     | p :: ops' ->
       (match p with
        | OpSExp ->
          (match bs with
           | [] -> Err SerializationError
           | b :: r ->
             if N.eqb b (Npos (Coq_xI (Coq_xI (Coq_xI (Coq_xI (Coq_xI (Coq_xI
                  (Coq_xI Coq_xH))))))))
             then de_loop read_atom mk_pair f
                    (OpSExp :: (OpSExp :: (OpCons :: ops'))) vals r
             else bind (read_atom b r) (fun x ->
                    let (a, r') = x in
                    de_loop read_atom mk_pair f ops' (a :: vals) r'))
        | OpCons ->
          (match vals with
           | [] -> Err (Panic (Npos (Coq_xO Coq_xH)))
           | v2 :: l ->
             (match l with
              | [] -> Err (Panic (Npos (Coq_xO Coq_xH)))
              | v1 :: vs ->
                de_loop read_atom mk_pair f ops' ((mk_pair v1 v2) :: vs) bs))))

(** val parse_rec :
    (coq_N -> bytes -> ('a1 * bytes) res) -> ('a1 -> 'a1 -> 'a1) -> nat ->
    bytes -> ('a1 * bytes) res **)

let rec parse_rec read_atom mk_pair fuel bs =
  match fuel with
  | O -> Err OutOfFuel
  | S f ->
    (match bs with
     | [] -> Err SerializationError
     | b :: r ->
       if N.eqb b (Npos (Coq_xI (Coq_xI (Coq_xI (Coq_xI (Coq_xI (Coq_xI
            (Coq_xI Coq_xH))))))))
       then bind (parse_rec read_atom mk_pair f r) (fun x ->
              let (l, r1) = x in
              bind (parse_rec read_atom mk_pair f r1) (fun x0 ->
                let (rt, r2) = x0 in Ok ((mk_pair l rt), r2)))
       else read_atom b r)

(** val de_fuel : bytes -> nat **)

let de_fuel bs =
  add (mul (S (S O)) (length bs)) (S (S O))

(** val read_atom_node : coq_N -> bytes -> (sexp * bytes) res **)

let read_atom_node b r =
  bind (parse_atom_node b r) (fun x -> let (a, r') = x in Ok ((Atom a), r'))

(** val node_from_stream : bytes -> (sexp * bytes) res **)

let node_from_stream bs =
  de_loop read_atom_node (fun x x0 -> Cons (x, x0)) (de_fuel bs)
    (OpSExp :: []) [] bs

(** val parse : bytes -> (sexp * bytes) res **)

let parse bs =
  parse_rec read_atom_node (fun x x0 -> Cons (x, x0)) (S (length bs)) bs

(** val hash_atom : (bytes -> bytes) -> bytes -> bytes **)

let hash_atom h b =
  h ((Npos Coq_xH) :: b)

(** val hash_pair : (bytes -> bytes) -> bytes -> bytes -> bytes **)

let hash_pair h l r =
  h ((Npos (Coq_xO Coq_xH)) :: (app l r))

(** val treehash : (bytes -> bytes) -> sexp -> bytes **)

let rec treehash h = function
| Atom b -> hash_atom h b
| Cons (l, r) -> hash_pair h (treehash h l) (treehash h r)

(** val read_atom_hash :
    (bytes -> bytes) -> coq_N -> bytes -> (bytes * bytes) res **)

let read_atom_hash h b r =
  if N.eqb b (Npos (Coq_xO (Coq_xO (Coq_xO (Coq_xO (Coq_xO (Coq_xO (Coq_xO
       Coq_xH))))))))
  then Ok ((hash_atom h []), r)
  else if N.leb b (Npos (Coq_xI (Coq_xI (Coq_xI (Coq_xI (Coq_xI (Coq_xI
            Coq_xH)))))))
       then Ok ((hash_atom h (b :: [])), r)
       else bind (decode_size b r) (fun x ->
              let (size, r') = x in
              if N.ltb (blen r') size
              then Err SerializationError
              else Ok ((hash_atom h (firstn (N.to_nat size) r')),
                     (skipn (N.to_nat size) r')))

(** val tree_hash_from_stream :
    (bytes -> bytes) -> bytes -> (bytes * bytes) res **)

let tree_hash_from_stream h bs =
  de_loop (read_atom_hash h) (hash_pair h) (de_fuel bs) (OpSExp :: []) [] bs

(** val trusted_len_loop : nat -> coq_N -> bytes -> bytes res **)

let rec trusted_len_loop fuel counter bs =
  match fuel with
  | O -> Err OutOfFuel
  | S f ->
    if N.eqb counter N0
    then Ok bs
    else let counter0 = N.sub counter (Npos Coq_xH) in
         (match bs with
          | [] -> Err SerializationError
          | b :: r ->
            if N.eqb b (Npos (Coq_xI (Coq_xI (Coq_xI (Coq_xI (Coq_xI (Coq_xI
                 (Coq_xI Coq_xH))))))))
            then trusted_len_loop f (N.add counter0 (Npos (Coq_xO Coq_xH))) r
            else if N.eqb b (Npos (Coq_xO (Coq_xI (Coq_xI (Coq_xI (Coq_xI
                      (Coq_xI (Coq_xI Coq_xH))))))))
                 then (match r with
                       | [] -> Err SerializationError
                       | fb :: r1 ->
                         if N.ltb (Npos (Coq_xI (Coq_xI (Coq_xI (Coq_xI
                              (Coq_xI (Coq_xI Coq_xH))))))) fb
                         then bind (decode_size fb r1) (fun x ->
                                let (size, r2) = x in
                                (match take_n size r2 with
                                 | Some p ->
                                   let (_, r3) = p in
                                   trusted_len_loop f counter0 r3
                                 | None -> Err SerializationError))
                         else trusted_len_loop f counter0 r1)
                 else if (||)
                           (N.eqb b (Npos (Coq_xO (Coq_xO (Coq_xO (Coq_xO
                             (Coq_xO (Coq_xO (Coq_xO Coq_xH)))))))))
                           (N.leb b (Npos (Coq_xI (Coq_xI (Coq_xI (Coq_xI
                             (Coq_xI (Coq_xI Coq_xH))))))))
                      then trusted_len_loop f counter0 r
                      else bind (decode_size b r) (fun x ->
                             let (size, r1) = x in
                             (match take_n size r1 with
                              | Some p ->
                                let (_, r2) = p in
                                trusted_len_loop f counter0 r2
                              | None -> Err SerializationError)))

(** val serialized_length_trusted : bytes -> coq_N res **)

let serialized_length_trusted bs =
  bind (trusted_len_loop (de_fuel bs) (Npos Coq_xH) bs) (fun rest -> Ok
    (N.sub (blen bs) (blen rest)))

type canon_res =
| CTrue of bytes
| CFalse
| CPanic

(** val canon_min_value : coq_N -> coq_N option **)

let canon_min_value prefix_len =
  if N.eqb prefix_len (Npos Coq_xH)
  then Some (Npos Coq_xH)
  else if N.eqb prefix_len (Npos (Coq_xO Coq_xH))
       then Some (Npos (Coq_xO (Coq_xO (Coq_xO (Coq_xO (Coq_xO (Coq_xO
              Coq_xH)))))))
       else if N.eqb prefix_len (Npos (Coq_xI Coq_xH))
            then Some (Npos (Coq_xO (Coq_xO (Coq_xO (Coq_xO (Coq_xO (Coq_xO
                   (Coq_xO (Coq_xO (Coq_xO (Coq_xO (Coq_xO (Coq_xO (Coq_xO
                   Coq_xH))))))))))))))
            else if N.eqb prefix_len (Npos (Coq_xO (Coq_xO Coq_xH)))
                 then Some (Npos (Coq_xO (Coq_xO (Coq_xO (Coq_xO (Coq_xO
                        (Coq_xO (Coq_xO (Coq_xO (Coq_xO (Coq_xO (Coq_xO
                        (Coq_xO (Coq_xO (Coq_xO (Coq_xO (Coq_xO (Coq_xO
                        (Coq_xO (Coq_xO (Coq_xO Coq_xH)))))))))))))))))))))
                 else if N.eqb prefix_len (Npos (Coq_xI (Coq_xO Coq_xH)))
                      then Some (Npos (Coq_xO (Coq_xO (Coq_xO (Coq_xO (Coq_xO
                             (Coq_xO (Coq_xO (Coq_xO (Coq_xO (Coq_xO (Coq_xO
                             (Coq_xO (Coq_xO (Coq_xO (Coq_xO (Coq_xO (Coq_xO
                             (Coq_xO (Coq_xO (Coq_xO (Coq_xO (Coq_xO (Coq_xO
                             (Coq_xO (Coq_xO (Coq_xO (Coq_xO
                             Coq_xH))))))))))))))))))))))))))))
                      else if N.eqb prefix_len (Npos (Coq_xO (Coq_xI Coq_xH)))
                           then Some (Npos (Coq_xO (Coq_xO (Coq_xO (Coq_xO
                                  (Coq_xO (Coq_xO (Coq_xO (Coq_xO (Coq_xO
                                  (Coq_xO (Coq_xO (Coq_xO (Coq_xO (Coq_xO
                                  (Coq_xO (Coq_xO (Coq_xO (Coq_xO (Coq_xO
                                  (Coq_xO (Coq_xO (Coq_xO (Coq_xO (Coq_xO
                                  (Coq_xO (Coq_xO (Coq_xO (Coq_xO (Coq_xO
                                  (Coq_xO (Coq_xO (Coq_xO (Coq_xO (Coq_xO
                                  Coq_xH)))))))))))))))))))))))))))))))))))
                           else None

(** val is_canonical_atom : coq_N -> bytes -> canon_res **)

let is_canonical_atom first r =
  if (||)
       (N.eqb first (Npos (Coq_xO (Coq_xO (Coq_xO (Coq_xO (Coq_xO (Coq_xO
         (Coq_xO Coq_xH)))))))))
       (N.leb first (Npos (Coq_xI (Coq_xI (Coq_xI (Coq_xI (Coq_xI (Coq_xI
         Coq_xH))))))))
  then CTrue r
  else (match decode_size_with_offset first r with
        | Ok a ->
          let (p, r1) = a in
          let (prefix_len, atom_len) = p in
          (match canon_min_value prefix_len with
           | Some min_value ->
             if N.eqb atom_len (Npos Coq_xH)
             then (match r1 with
                   | [] -> CFalse
                   | v :: r2 ->
                     if N.ltb v (Npos (Coq_xO (Coq_xO (Coq_xO (Coq_xO (Coq_xO
                          (Coq_xO (Coq_xO Coq_xH))))))))
                     then CFalse
                     else if N.leb min_value atom_len
                          then CTrue r2
                          else CFalse)
             else (match take_n atom_len r1 with
                   | Some p0 ->
                     let (_, r2) = p0 in
                     if N.leb min_value atom_len then CTrue r2 else CFalse
                   | None -> CFalse)
           | None -> CPanic)
        | Err _ -> CFalse)

type bool_or_panic =
| BTrue
| BFalse
| BPanic
| BFuel

(** val canonical_loop : nat -> coq_N -> bytes -> bool_or_panic **)

let rec canonical_loop fuel counter bs =
  match fuel with
  | O -> BFuel
  | S f ->
    if N.eqb counter N0
    then (match bs with
          | [] -> BTrue
          | _ :: _ -> BFalse)
    else let counter0 = N.sub counter (Npos Coq_xH) in
         (match bs with
          | [] -> BFalse
          | b :: r ->
            if N.eqb b (Npos (Coq_xI (Coq_xI (Coq_xI (Coq_xI (Coq_xI (Coq_xI
                 (Coq_xI Coq_xH))))))))
            then canonical_loop f (N.add counter0 (Npos (Coq_xO Coq_xH))) r
            else if N.eqb b (Npos (Coq_xO (Coq_xI (Coq_xI (Coq_xI (Coq_xI
                      (Coq_xI (Coq_xI Coq_xH))))))))
                 then (match r with
                       | [] -> BFalse
                       | b2 :: r1 ->
                         (match is_canonical_atom b2 r1 with
                          | CTrue r2 -> canonical_loop f counter0 r2
                          | CFalse -> BFalse
                          | CPanic -> BPanic))
                 else (match is_canonical_atom b r with
                       | CTrue r2 -> canonical_loop f counter0 r2
                       | CFalse -> BFalse
                       | CPanic -> BPanic))

(** val is_canonical_serialization : bytes -> bool_or_panic **)

let is_canonical_serialization bs =
  canonical_loop (de_fuel bs) (Npos Coq_xH) bs

(** val u32 : coq_N -> coq_N **)

let u32 x =
  N.modulo x (Npos (Coq_xO (Coq_xO (Coq_xO (Coq_xO (Coq_xO (Coq_xO (Coq_xO
    (Coq_xO (Coq_xO (Coq_xO (Coq_xO (Coq_xO (Coq_xO (Coq_xO (Coq_xO (Coq_xO
    (Coq_xO (Coq_xO (Coq_xO (Coq_xO (Coq_xO (Coq_xO (Coq_xO (Coq_xO (Coq_xO
    (Coq_xO (Coq_xO (Coq_xO (Coq_xO (Coq_xO (Coq_xO (Coq_xO
    Coq_xH)))))))))))))))))))))))))))))))))

(** val serialized_length_atom : bytes -> coq_N res **)

let serialized_length_atom b =
  let lb = u32 (blen b) in
  if (||) (N.eqb lb N0)
       ((&&) (N.eqb lb (Npos Coq_xH))
         (N.ltb (atom_0 b) (Npos (Coq_xO (Coq_xO (Coq_xO (Coq_xO (Coq_xO
           (Coq_xO (Coq_xO Coq_xH))))))))))
  then Ok (Npos Coq_xH)
  else if N.ltb lb (Npos (Coq_xO (Coq_xO (Coq_xO (Coq_xO (Coq_xO (Coq_xO
            Coq_xH)))))))
       then Ok (N.add (Npos Coq_xH) lb)
       else if N.ltb lb (Npos (Coq_xO (Coq_xO (Coq_xO (Coq_xO (Coq_xO (Coq_xO
                 (Coq_xO (Coq_xO (Coq_xO (Coq_xO (Coq_xO (Coq_xO (Coq_xO
                 Coq_xH))))))))))))))
            then Ok (N.add (Npos (Coq_xO Coq_xH)) lb)
            else if N.ltb lb (Npos (Coq_xO (Coq_xO (Coq_xO (Coq_xO (Coq_xO
                      (Coq_xO (Coq_xO (Coq_xO (Coq_xO (Coq_xO (Coq_xO (Coq_xO
                      (Coq_xO (Coq_xO (Coq_xO (Coq_xO (Coq_xO (Coq_xO (Coq_xO
                      (Coq_xO Coq_xH)))))))))))))))))))))
                 then Ok (N.add (Npos (Coq_xI Coq_xH)) lb)
                 else if N.ltb lb (Npos (Coq_xO (Coq_xO (Coq_xO (Coq_xO
                           (Coq_xO (Coq_xO (Coq_xO (Coq_xO (Coq_xO (Coq_xO
                           (Coq_xO (Coq_xO (Coq_xO (Coq_xO (Coq_xO (Coq_xO
                           (Coq_xO (Coq_xO (Coq_xO (Coq_xO (Coq_xO (Coq_xO
                           (Coq_xO (Coq_xO (Coq_xO (Coq_xO (Coq_xO
                           Coq_xH))))))))))))))))))))))))))))
                      then Ok (N.add (Npos (Coq_xO (Coq_xO Coq_xH))) lb)
                      else if N.ltb
                                (N.add (Npos (Coq_xI (Coq_xO Coq_xH))) lb)
                                (Npos (Coq_xO (Coq_xO (Coq_xO (Coq_xO (Coq_xO
                                (Coq_xO (Coq_xO (Coq_xO (Coq_xO (Coq_xO
                                (Coq_xO (Coq_xO (Coq_xO (Coq_xO (Coq_xO
                                (Coq_xO (Coq_xO (Coq_xO (Coq_xO (Coq_xO
                                (Coq_xO (Coq_xO (Coq_xO (Coq_xO (Coq_xO
                                (Coq_xO (Coq_xO (Coq_xO (Coq_xO (Coq_xO
                                (Coq_xO (Coq_xO
                                Coq_xH)))))))))))))))))))))))))))))))))
                           then Ok (N.add (Npos (Coq_xI (Coq_xO Coq_xH))) lb)
                           else Err (Overflow (Npos Coq_xH))

(** val sat_add64 : coq_N -> coq_N -> coq_N **)

let sat_add64 a b =
  N.min (N.add a b) (Npos (Coq_xI (Coq_xI (Coq_xI (Coq_xI (Coq_xI (Coq_xI
    (Coq_xI (Coq_xI (Coq_xI (Coq_xI (Coq_xI (Coq_xI (Coq_xI (Coq_xI (Coq_xI
    (Coq_xI (Coq_xI (Coq_xI (Coq_xI (Coq_xI (Coq_xI (Coq_xI (Coq_xI (Coq_xI
    (Coq_xI (Coq_xI (Coq_xI (Coq_xI (Coq_xI (Coq_xI (Coq_xI (Coq_xI (Coq_xI
    (Coq_xI (Coq_xI (Coq_xI (Coq_xI (Coq_xI (Coq_xI (Coq_xI (Coq_xI (Coq_xI
    (Coq_xI (Coq_xI (Coq_xI (Coq_xI (Coq_xI (Coq_xI (Coq_xI (Coq_xI (Coq_xI
    (Coq_xI (Coq_xI (Coq_xI (Coq_xI (Coq_xI (Coq_xI (Coq_xI (Coq_xI (Coq_xI
    (Coq_xI (Coq_xI (Coq_xI
    Coq_xH))))))))))))))))))))))))))))))))))))))))))))))))))))))))))))))))

(** val cache_serialized_length : sexp -> coq_N res **)

let rec cache_serialized_length = function
| Atom b -> serialized_length_atom b
| Cons (l, r) ->
  bind (cache_serialized_length l) (fun a ->
    bind (cache_serialized_length r) (fun c -> Ok
      (sat_add64 (sat_add64 (Npos Coq_xH) a) c)))

type triple =
| TAtom of coq_N * coq_N * coq_N
| TPair of coq_N * coq_N * coq_N

type op_ref =
| ParseObj
| SaveEnd of nat
| SaveRightIndex of nat

(** val update_nth :
    nat -> ('a1 -> 'a1 option) -> 'a1 list -> 'a1 list option **)

let rec update_nth i f = function
| [] -> None
| x :: r ->
  (match i with
   | O -> (match f x with
           | Some y -> Some (y :: r)
           | None -> None)
   | S j ->
     (match update_nth j f r with
      | Some r' -> Some (x :: r')
      | None -> None))

(** val triples_loop :
    (bytes -> bytes) -> nat -> op_ref list -> triple list -> bytes list ->
    coq_N -> bytes -> ((triple list * bytes list) * bytes) res **)

let rec triples_loop h fuel ops r th cursor bs =
  match fuel with
  | O -> Err OutOfFuel
  | S f ->
    (match ops with
     | [] -> Ok ((r, th), bs)
     | o :: ops' ->
       (match o with
        | ParseObj ->
          (match bs with
           | [] -> Err SerializationError
           | b :: rest ->
             let cursor0 = N.add cursor (Npos Coq_xH) in
             if N.eqb b (Npos (Coq_xI (Coq_xI (Coq_xI (Coq_xI (Coq_xI (Coq_xI
                  (Coq_xI Coq_xH))))))))
             then let index = length r in
                  triples_loop h f (ParseObj :: ((SaveRightIndex
                    index) :: (ParseObj :: ((SaveEnd index) :: ops'))))
                    (app r ((TPair (cursor, N0, N0)) :: []))
                    (app th ([] :: [])) cursor0 rest
             else if N.leb b (Npos (Coq_xI (Coq_xI (Coq_xI (Coq_xI (Coq_xI
                       (Coq_xI Coq_xH)))))))
                  then triples_loop h f ops'
                         (app r ((TAtom (cursor,
                           (N.add cursor (Npos Coq_xH)), N0)) :: []))
                         (app th ((h ((Npos Coq_xH) :: (b :: []))) :: []))
                         (N.add cursor (Npos Coq_xH)) rest
                  else bind (decode_size_with_offset b rest) (fun x ->
                         let (p, rest1) = x in
                         let (atom_offset, atom_size) = p in
                         let end_ = N.add (N.add cursor atom_offset) atom_size
                         in
                         (match take_n atom_size rest1 with
                          | Some p0 ->
                            let (blob, rest2) = p0 in
                            triples_loop h f ops'
                              (app r ((TAtom (cursor, end_,
                                atom_offset)) :: []))
                              (app th ((h ((Npos Coq_xH) :: blob)) :: []))
                              end_ rest2
                          | None -> Err (InternalError (Npos (Coq_xO Coq_xH))))))
        | SaveEnd index ->
          (match nth_error r index with
           | Some t ->
             (match t with
              | TAtom (_, _, _) -> Err (Panic (Npos (Coq_xI (Coq_xO Coq_xH))))
              | TPair (s, _, ri) ->
                (match nth_error th (S index) with
                 | Some hl ->
                   (match nth_error th (N.to_nat ri) with
                    | Some hr ->
                      (match update_nth index (fun _ -> Some (TPair (s,
                               cursor, ri))) r with
                       | Some r' ->
                         (match update_nth index (fun _ -> Some
                                  (h ((Npos (Coq_xO Coq_xH)) :: (app hl hr))))
                                  th with
                          | Some th' -> triples_loop h f ops' r' th' cursor bs
                          | None -> Err (Panic (Npos (Coq_xI Coq_xH))))
                       | None -> Err (Panic (Npos (Coq_xI Coq_xH))))
                    | None -> Err (Panic (Npos (Coq_xO (Coq_xO Coq_xH)))))
                 | None -> Err (Panic (Npos (Coq_xO (Coq_xO Coq_xH))))))
           | None -> Err (Panic (Npos (Coq_xI (Coq_xO Coq_xH)))))
        | SaveRightIndex index ->
          let new_index = N.of_nat (length r) in
          (match nth_error r index with
           | Some t ->
             (match t with
              | TAtom (_, _, _) -> Err (Panic (Npos (Coq_xI (Coq_xI Coq_xH))))
              | TPair (s, e, _) ->
                (match update_nth index (fun _ -> Some (TPair (s, e,
                         new_index))) r with
                 | Some r' -> triples_loop h f ops' r' th cursor bs
                 | None -> Err (Panic (Npos (Coq_xO (Coq_xI Coq_xH))))))
           | None -> Err (Panic (Npos (Coq_xI (Coq_xI Coq_xH)))))))

(** val parse_triples :
    (bytes -> bytes) -> bytes -> ((triple list * bytes list) * bytes) res **)

let parse_triples h bs =
  triples_loop h (add (mul (S (S (S (S O)))) (length bs)) (S (S (S (S O)))))
    (ParseObj :: []) [] [] N0 bs
