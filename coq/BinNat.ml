open BinNums
open BinPos
open Datatypes

module N =
 struct
  (** val succ_double : coq_N -> coq_N **)

  let succ_double = function
  | N0 -> Npos Coq_xH
  | Npos p -> Npos (Coq_xI p)

  (** val double : coq_N -> coq_N **)

  let double = function
  | N0 -> N0
  | Npos p -> Npos (Coq_xO p)

  (** val pred : coq_N -> coq_N **)

  let pred = function
  | N0 -> N0
  | Npos p -> Pos.pred_N p

  (** val succ_pos : coq_N -> positive **)

  let succ_pos = function
  | N0 -> Coq_xH
  | Npos p -> Pos.succ p

  (** val add : coq_N -> coq_N -> coq_N **)

  let add n m =
    match n with
    | N0 -> m
    | Npos p -> (match m with
                 | N0 -> n
                 | Npos q -> Npos (Pos.add p q))

  (** val sub : coq_N -> coq_N -> coq_N **)

  let sub n m =
    match n with
    | N0 -> N0
    | Npos n' ->
      (match m with
       | N0 -> n
       | Npos m' ->
         (match Pos.sub_mask n' m' with
          | Pos.IsPos p -> Npos p
          | _ -> N0))

  (** val mul : coq_N -> coq_N -> coq_N **)

  let mul n m =
    match n with
    | N0 -> N0
    | Npos p -> (match m with
                 | N0 -> N0
                 | Npos q -> Npos (Pos.mul p q))

  (** val compare : coq_N -> coq_N -> comparison **)

  let compare n m =
    match n with
    | N0 -> (match m with
             | N0 -> Eq
             | Npos _ -> Lt)
    | Npos n' -> (match m with
                  | N0 -> Gt
                  | Npos m' -> Pos.compare n' m')

  (** val eqb : coq_N -> coq_N -> bool **)

  let eqb n m =
    match n with
    | N0 -> (match m with
             | N0 -> true
             | Npos _ -> false)
    | Npos p -> (match m with
                 | N0 -> false
                 | Npos q -> Pos.eqb p q)

  (** val leb : coq_N -> coq_N -> bool **)

  let leb x y =
    match compare x y with
    | Gt -> false
    | _ -> true

  (** val ltb : coq_N -> coq_N -> bool **)

  let ltb x y =
    match compare x y with
    | Lt -> true
    | _ -> false

  (** val min : coq_N -> coq_N -> coq_N **)

  let min n n' =
    match compare n n' with
    | Gt -> n'
    | _ -> n

  (** val div2 : coq_N -> coq_N **)

  let div2 = function
  | N0 -> N0
  | Npos p0 ->
    (match p0 with
     | Coq_xI p -> Npos p
     | Coq_xO p -> Npos p
     | Coq_xH -> N0)

  (** val pos_div_eucl : positive -> coq_N -> coq_N * coq_N **)

  let rec pos_div_eucl a b =
    match a with
    | Coq_xI a' ->
      let (q, r) = pos_div_eucl a' b in
      let r' = succ_double r in
      if leb b r' then ((succ_double q), (sub r' b)) else ((double q), r')
    | Coq_xO a' ->
      let (q, r) = pos_div_eucl a' b in
      let r' = double r in
      if leb b r' then ((succ_double q), (sub r' b)) else ((double q), r')
    | Coq_xH ->
      (match b with
       | N0 -> (N0, (Npos Coq_xH))
       | Npos p ->
         (match p with
          | Coq_xH -> ((Npos Coq_xH), N0)
          | _ -> (N0, (Npos Coq_xH))))

  (** val div_eucl : coq_N -> coq_N -> coq_N * coq_N **)

  let div_eucl a b =
    match a with
    | N0 -> (N0, N0)
    | Npos na -> (match b with
                  | N0 -> (N0, a)
                  | Npos _ -> pos_div_eucl na b)

  (** val div : coq_N -> coq_N -> coq_N **)

  let div a b =
    fst (div_eucl a b)

  (** val modulo : coq_N -> coq_N -> coq_N **)

  let modulo a b =
    snd (div_eucl a b)

  (** val coq_lor : coq_N -> coq_N -> coq_N **)

  let coq_lor n m =
    match n with
    | N0 -> m
    | Npos p -> (match m with
                 | N0 -> n
                 | Npos q -> Npos (Pos.coq_lor p q))

  (** val coq_land : coq_N -> coq_N -> coq_N **)

  let coq_land n m =
    match n with
    | N0 -> N0
    | Npos p -> (match m with
                 | N0 -> N0
                 | Npos q -> Pos.coq_land p q)

  (** val ldiff : coq_N -> coq_N -> coq_N **)

  let ldiff n m =
    match n with
    | N0 -> N0
    | Npos p -> (match m with
                 | N0 -> n
                 | Npos q -> Pos.ldiff p q)

  (** val coq_lxor : coq_N -> coq_N -> coq_N **)

  let coq_lxor n m =
    match n with
    | N0 -> m
    | Npos p -> (match m with
                 | N0 -> n
                 | Npos q -> Pos.coq_lxor p q)

  (** val shiftl : coq_N -> coq_N -> coq_N **)

  let shiftl a n =
    match a with
    | N0 -> N0
    | Npos a0 -> Npos (Pos.shiftl a0 n)

  (** val shiftr : coq_N -> coq_N -> coq_N **)

  let shiftr a = function
  | N0 -> a
  | Npos p -> Pos.iter div2 a p

  (** val testbit : coq_N -> coq_N -> bool **)

  let testbit a n =
    match a with
    | N0 -> false
    | Npos p -> Pos.testbit p n

  (** val to_nat : coq_N -> nat **)

  let to_nat = function
  | N0 -> O
  | Npos p -> Pos.to_nat p

  (** val of_nat : nat -> coq_N **)

  let of_nat = function
  | O -> N0
  | S n' -> Npos (Pos.of_succ_nat n')
 end
