open Bstr
open Datatypes
open Nat

type sexp =
| Atom of bytes
| Cons of sexp * sexp

val sexp_eqb : sexp -> sexp -> bool

val n_nodes : sexp -> nat
