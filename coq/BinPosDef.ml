open BinNums

module Pos =
 struct
  type mask =
  | IsNul
  | IsPos of positive
  | IsNeg
 end
