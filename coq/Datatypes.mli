
val negb : bool -> bool

type nat =
| O
| S of nat

val fst : ('a1 * 'a2) -> 'a1

val snd : ('a1 * 'a2) -> 'a2

val length : 'a1 list -> nat

val app : 'a1 list -> 'a1 list -> 'a1 list

type comparison =
| Eq
| Lt
| Gt

val coq_CompOpp : comparison -> comparison
