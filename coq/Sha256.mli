open BinNat
open BinNums
open Datatypes
open List
open PeanoNat

val w32 : coq_N -> coq_N

val add32 : coq_N -> coq_N -> coq_N

val rotr : coq_N -> coq_N -> coq_N

val shr : coq_N -> coq_N -> coq_N

val not32 : coq_N -> coq_N

val ch : coq_N -> coq_N -> coq_N -> coq_N

val maj : coq_N -> coq_N -> coq_N -> coq_N

val bsig0 : coq_N -> coq_N

val bsig1 : coq_N -> coq_N

val ssig0 : coq_N -> coq_N

val ssig1 : coq_N -> coq_N

val coq_K : coq_N list

val coq_H0 : coq_N list

val words : coq_N list -> coq_N list

val sched : nat -> coq_N list -> coq_N list -> coq_N list

val round : coq_N list -> (coq_N * coq_N) -> coq_N list

val compress : coq_N list -> coq_N list -> coq_N list

val be : nat -> coq_N -> coq_N list

val pad : coq_N list -> coq_N list

val blocks : nat -> coq_N list -> coq_N list -> coq_N list

val sha256 : coq_N list -> coq_N list
