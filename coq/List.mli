open Datatypes

val nth : nat -> 'a1 list -> 'a1 -> 'a1

val nth_error : 'a1 list -> nat -> 'a1 option

val rev : 'a1 list -> 'a1 list

val concat : 'a1 list list -> 'a1 list

val map : ('a1 -> 'a2) -> 'a1 list -> 'a2 list

val fold_left : ('a1 -> 'a2 -> 'a1) -> 'a2 list -> 'a1 -> 'a1

val forallb : ('a1 -> bool) -> 'a1 list -> bool

val combine : 'a1 list -> 'a2 list -> ('a1 * 'a2) list

val firstn : nat -> 'a1 list -> 'a1 list

val skipn : nat -> 'a1 list -> 'a1 list

val repeat : 'a1 -> nat -> 'a1 list
