"""Constants of the wheel (wheel/python/clvm_rs/*.py, wheel/src/api.rs) and the flag bits they
refer to (src/chia_dialect.rs) -> coq/Gen/PyConsts.v. Fails closed: a region that is missing or
does not have the expected shape raises."""
import os, re

from gen_consts import TranslateError, region, const_expr, nlist


def pybytes(s, what):
    m = re.fullmatch(r'bytes\.fromhex\("([0-9a-fA-F]*)"\)', s.strip())
    if not m:
        raise TranslateError("not a bytes.fromhex literal (%s): %r" % (what, s))
    return list(bytes.fromhex(m.group(1)))


def generate(repo, out):
    rd = lambda p: open(os.path.join(repo, p)).read()
    # ---------------------------------------------------------------- ser.py
    ser = rd("wheel/python/clvm_rs/ser.py")
    m1 = re.search(r"^MAX_SINGLE_BYTE = (0x[0-9a-fA-F]+)$", ser, re.M)
    m2 = re.search(r"^CONS_BOX_MARKER = (0x[0-9a-fA-F]+)$", ser, re.M)
    if not m1 or not m2:
        raise TranslateError("ser.py: MAX_SINGLE_BYTE / CONS_BOX_MARKER not found")
    max_single, cons_marker = const_expr(m1.group(1), "MAX_SINGLE_BYTE"), const_expr(m2.group(1), "CONS_BOX_MARKER")
    sb = region(ser, r"def size_blob_for_blob\(blob: bytes\) -> bytes:", r"\n    raise ValueError\(\"blob too long", "size_blob_for_blob")
    ths = [const_expr(x, "py prefix threshold") for x in re.findall(r"if size < (0x[0-9a-fA-F]+):", sb)]
    tags = [const_expr(x, "py prefix tag") for x in re.findall(r"(0x[0-9a-fA-F]+) \| \(size >> \d+\)", sb)]
    tags = [const_expr(x, "py prefix tag") for x in re.findall(r"bytes\(\[(0x[0-9a-fA-F]+) \| size\]\)", sb)] + tags
    if len(ths) != 5 or len(tags) != 5:
        raise TranslateError("ser.py: expected 5 size classes, found %d thresholds / %d tags" % (len(ths), len(tags)))
    ab = region(ser, r"def atom_to_byte_iterator\(as_atom: bytes\)", r"\n    yield as_atom\n", "atom_to_byte_iterator")
    if not re.search(r"if size == 0:\s+yield b\"\\x80\"\s+return\s+if size == 1:\s+if as_atom\[0\] <= MAX_SINGLE_BYTE:\s+yield as_atom\s+return\s+yield size_blob_for_blob\(as_atom\)", ab):
        raise TranslateError("ser.py: atom_to_byte_iterator changed shape")
    af = ser[ser.index("def _atom_from_stream("):] if "def _atom_from_stream(" in ser else None
    if af is None:
        raise TranslateError("ser.py: _atom_from_stream not found")
    if not re.search(r"if b == 0x80:\s+return new_atom_f\(b\"\"\)\s+if b <= MAX_SINGLE_BYTE:\s+return new_atom_f\(bytes\(\[b\]\)\)", af):
        raise TranslateError("ser.py: _atom_from_stream head changed shape")
    if not re.search(r"bit_count = 0\s+bit_mask = 0x80\s+while b & bit_mask:\s+bit_count \+= 1\s+b &= 0xFF \^ bit_mask\s+bit_mask >>= 1", af):
        raise TranslateError("ser.py: _atom_from_stream bit loop changed shape")
    m = re.search(r"if size >= (0x[0-9a-fA-F]+):\s+raise ValueError\(\"blob too large\"\)", af)
    if not m:
        raise TranslateError("ser.py: _atom_from_stream size bound not found")
    py_max = const_expr(m.group(1), "py decode max")
    # the size-field length check (absent before the fix: of F4)
    rd_pat = r"if bit_count > 1:\s+blob = f\.read\(bit_count - 1\)\s+if len\(blob\) != bit_count - 1:\s+raise ValueError\(\"bad encoding\"\)\s+size_blob \+= blob"
    if len(re.findall(rd_pat, af)) != 1:
        raise TranslateError("ser.py: _atom_from_stream size-field read changed shape")
    af2 = re.sub(rd_pat, "", af)
    lim = re.findall(r"if bit_count (>=|>) (\d+):\s+raise ValueError\(\"bad encoding\"\)", af2)
    if len(lim) > 1:
        raise TranslateError("ser.py: more than one bit_count check")
    if lim:
        op, v = lim[0]
        limit_s = "Some %d" % (int(v) if op == ">" else int(v) - 1)
        af2 = re.sub(r"if bit_count (>=|>) (\d+):\s+raise ValueError\(\"bad encoding\"\)", "", af2)
    else:
        limit_s = "None"
    if re.search(r"bit_count\s*(>|<|==|!=)", af2):
        raise TranslateError("ser.py: an unrecognised bit_count comparison")
    # ---------------------------------------------------------------- casts.py
    casts = rd("wheel/python/clvm_rs/casts.py")
    m = re.search(r"byte_count = \(v\.bit_length\(\) \+ (\d+)\) // (\d+)\s+r = v\.to_bytes\(byte_count, \"big\", signed=True\)", casts)
    if not m:
        raise TranslateError("casts.py: int_to_bytes byte_count changed shape")
    bc_add, bc_div = int(m.group(1)), int(m.group(2))
    m = re.search(r"while len\(r\) > 1 and r\[0\] == \((0x[0-9a-fA-F]+) if r\[1\] & (0x[0-9a-fA-F]+) else (\d+)\):\s+r = r\[1:\]", casts)
    if not m:
        raise TranslateError("casts.py: int_to_bytes strip loop changed shape")
    strip = [const_expr(m.group(i), "strip loop") for i in (1, 2, 3)]
    if not re.search(r"if size == 0:\s+return 0\s+return int\.from_bytes\(blob, \"big\", signed=True\)", casts):
        raise TranslateError("casts.py: int_from_bytes changed shape")
    # ---------------------------------------------------------------- chia_dialect.py, tree_hash.py
    dia = rd("wheel/python/clvm_rs/chia_dialect.py")
    kw = {}
    for name in ("NULL", "ONE", "Q_KW", "A_KW", "C_KW"):
        m = re.search(r"^\s+%s=(bytes\.fromhex\(\"[0-9a-fA-F]*\"\)),$" % name, dia, re.M)
        if not m:
            raise TranslateError("chia_dialect.py: %s not found" % name)
        kw[name] = pybytes(m.group(1), name)
    th = rd("wheel/python/clvm_rs/tree_hash.py")
    ma = re.search(r"^CHIA_TREE_HASH_ATOM_PREFIX = (bytes\.fromhex\(\"[0-9a-fA-F]*\"\))$", th, re.M)
    mp = re.search(r"^CHIA_TREE_HASH_PAIR_PREFIX = (bytes\.fromhex\(\"[0-9a-fA-F]*\"\))$", th, re.M)
    if not ma or not mp:
        raise TranslateError("tree_hash.py: prefixes not found")
    cth = rd("wheel/python/clvm_rs/curry_and_treehash.py")
    m = re.search(r"^ONE = (bytes\.fromhex\(\"[0-9a-fA-F]*\"\))$", cth, re.M)
    if not m:
        raise TranslateError("curry_and_treehash.py: ONE not found")
    cone = pybytes(m.group(1), "ONE")
    if not re.search(r"fixed_args: CastableType = 1\s+for arg in reversed\(args\):\s+fixed_args = \[self\.dialect\.C_KW, \(self\.dialect\.Q_KW, arg\), fixed_args\]\s+return \[self\.dialect\.A_KW, \(self\.dialect\.Q_KW, mod\), fixed_args\]", cth):
        raise TranslateError("curry_and_treehash.py: curry changed shape")
    # ---------------------------------------------------------------- api.rs
    api = rd("wheel/src/api.rs")
    run = region(api, r"pub fn run_serialized_chia_program\(", r"\n}\n", "run_serialized_chia_program")
    if not re.search(r"flags: u32,", run) or not re.search(r"let flags = ClvmFlags::from_bits_truncate\(flags\);", run):
        raise TranslateError("api.rs: flag conversion changed shape")
    m = re.search(r"let mut allocator = if flags\.contains\(ClvmFlags::(\w+)\) \{\s+Allocator::new_limited\(([0-9_]+)\)\s+\} else \{\s+Allocator::new\(\)\s+\};", run)
    if not m:
        raise TranslateError("api.rs: heap limit choice changed shape")
    heap_flag, heap_limit = m.group(1), const_expr(m.group(2), "heap limit")
    if not re.search(r"let dialect = ChiaDialect::new\(flags\);", run) or not re.search(r"run_program\(&mut allocator, &dialect, program, args, max_cost\)", run):
        raise TranslateError("api.rs: run_program call changed shape")
    # clvm_tree_to_lazy_node: memo keyed by address, BuildPair carries addresses only; the repaired
    # code additionally keeps every visited object alive in a vector declared before the loop
    conv = region(api, r"fn clvm_tree_to_lazy_node\(obj: Bound<'_, PyAny>\) -> PyResult<LazyNode> \{", r"\n}\n", "clvm_tree_to_lazy_node")
    for pat, what in [
        (r"let mut identity_map: HashMap<usize, NodePtr> = HashMap::new\(\);", "identity map"),
        (r"Visit\(Bound<'py, PyAny>\),\s+BuildPair \{\s+id: usize,\s+left_id: usize,\s+right_id: usize,\s+\},", "work items"),
        (r"let id = pyobj\.as_ptr\(\) as usize;\s+if identity_map\.contains_key\(&id\) \{\s+continue;\s+\}", "memo check"),
        (r"if !right_done \{\s+stack\.push\(WorkItem::Visit\(right\)\);\s+\}\s+if !left_done \{\s+stack\.push\(WorkItem::Visit\(left\)\);\s+\}", "child pushes"),
        (r"let root = identity_map\[&root_ptr\];", "root lookup"),
    ]:
        if not re.search(pat, conv):
            raise TranslateError("api.rs: clvm_tree_to_lazy_node changed shape (%s)" % what)
    ka_decl = re.search(r"let mut (\w+): Vec<Bound<'_, PyAny>> = Vec::new\(\);(?=[\s\S]*while let Some\(item\) = stack\.pop\(\))", conv)
    if ka_decl:
        name = ka_decl.group(1)
        if not re.search(r"if identity_map\.contains_key\(&id\) \{\s+continue;\s+\}\s+%s\.push\(pyobj\.clone\(\)\);" % name, conv):
            raise TranslateError("api.rs: a keep-alive vector is declared but visited objects are not pushed right after the memo check")
        if len(re.findall(r"\b%s\b" % name, conv)) != 2:
            raise TranslateError("api.rs: the keep-alive vector is used in an unrecognised way")
        keepalive = "true"
    else:
        if re.search(r"keep_?alive", conv, re.I):
            raise TranslateError("api.rs: unrecognised keep-alive construct")
        keepalive = "false"
    m = re.search(r"const PY_DEFAULT_MAX_ATOM_LEN: usize = ([0-9 <]+);", api)
    if not m:
        raise TranslateError("api.rs: PY_DEFAULT_MAX_ATOM_LEN not found")
    max_atom = const_expr(m.group(1), "PY_DEFAULT_MAX_ATOM_LEN")
    alloc = rd("src/allocator.rs")
    m = re.search(r"pub fn new\(\) -> Self \{\s+Self::new_limited\((u32::MAX) as usize\)", alloc)
    if not m:
        raise TranslateError("allocator.rs: Allocator::new default heap limit changed shape")
    default_heap = 2 ** 32 - 1
    # flag bits
    cd = rd("src/chia_dialect.rs")
    bf = region(cd, r"pub struct ClvmFlags: u32 \{", r"\n    \}\n", "ClvmFlags")
    bits = re.findall(r"const (\w+) = (0x[0-9a-fA-F_]+);", bf)
    if len(bits) < 8:
        raise TranslateError("chia_dialect.rs: flag list changed shape")
    bitd = {k: const_expr(v, k) for k, v in bits}
    if heap_flag not in bitd:
        raise TranslateError("api.rs: heap-limit flag %s is not a ClvmFlags constant" % heap_flag)
    allbits = 0
    for v in bitd.values():
        allbits |= v
    s26 = rd("src/serde_2026/mod.rs") if os.path.exists(os.path.join(repo, "src/serde_2026/mod.rs")) else ""
    m = re.search(r"pub const SERDE_2026_MAGIC_PREFIX: \[u8; 6\] = \[([^\]]+)\];", s26)
    if not m:
        m2 = None
        for f in sorted(os.listdir(os.path.join(repo, "src/serde_2026"))):
            m2 = re.search(r"pub const SERDE_2026_MAGIC_PREFIX: \[u8; 6\] = \[([^\]]+)\];", rd(os.path.join("src/serde_2026", f)))
            if m2:
                break
        m = m2
    if not m:
        raise TranslateError("serde_2026: SERDE_2026_MAGIC_PREFIX not found")
    def magic_byte(x):
        x = x.strip()
        mm = re.fullmatch(r"b'([ -~])'", x)
        return ord(mm.group(1)) if mm else const_expr(x, "magic byte")
    magic = [magic_byte(x) for x in m.group(1).split(",") if x.strip()]
    prog = rd("wheel/python/clvm_rs/program.py")
    m = re.search(r'^SERDE_2026_MAGIC_PREFIX = b"((?:\\x[0-9a-fA-F]{2}|[ -~])*)"$', prog, re.M)
    if not m:
        raise TranslateError("program.py: SERDE_2026_MAGIC_PREFIX not found")
    py_magic = list(eval('b"%s"' % m.group(1), {"__builtins__": {}}, {}))
    txt = """(* GENERATED by translator/gen_pyconsts.py from /repo on every run. Do not edit. *)
From Coq Require Import List NArith.
Import ListNotations.
Open Scope N_scope.
(* wheel/python/clvm_rs/ser.py *)
Definition py_src_max_single_byte : N := %d.
Definition py_src_cons_box_marker : N := %d.
Definition py_src_prefix_thresholds : list N := %s.
Definition py_src_prefix_tags : list N := %s.
Definition py_src_decode_max : N := %d.
(* _atom_from_stream: largest accepted size-field length (`if bit_count > k: raise`), None = no check *)
Definition py_src_size_field_limit : option N := %s.
(* wheel/python/clvm_rs/casts.py: byte_count = (v.bit_length() + a) // d ; strip loop literals *)
Definition py_src_byte_count_add : N := %d.
Definition py_src_byte_count_div : N := %d.
Definition py_src_strip_literals : list N := %s.
(* chia_dialect.py / curry_and_treehash.py / tree_hash.py *)
Definition py_src_null : list N := %s.
Definition py_src_one : list N := %s.
Definition py_src_q_kw : list N := %s.
Definition py_src_a_kw : list N := %s.
Definition py_src_c_kw : list N := %s.
Definition py_src_curry_one : list N := %s.
Definition py_src_atom_prefix : list N := %s.
Definition py_src_pair_prefix : list N := %s.
(* wheel/src/api.rs run_serialized_chia_program; src/allocator.rs Allocator::new; src/chia_dialect.rs *)
Definition api_src_heap_flag_bit : N := %d.       (* ClvmFlags::%s *)
Definition api_src_heap_limit : N := %d.
Definition api_src_default_heap_limit : N := %d.
Definition api_src_all_flag_bits : N := %d.
Definition api_src_flag_bits : list N := %s.
Definition api_src_default_max_atom_len : N := %d.
(* clvm_tree_to_lazy_node keeps every visited object alive until it returns *)
Definition api_src_keepalive : bool := %s.
Definition api_src_magic_prefix : list N := %s.
Definition py_src_magic_prefix : list N := %s.
""" % (max_single, cons_marker,
       nlist(ths), nlist(tags), py_max, limit_s, bc_add, bc_div, nlist(strip),
       nlist(kw["NULL"]), nlist(kw["ONE"]), nlist(kw["Q_KW"]), nlist(kw["A_KW"]), nlist(kw["C_KW"]), nlist(cone),
       nlist(pybytes(ma.group(1), "atom prefix")), nlist(pybytes(mp.group(1), "pair prefix")),
       bitd[heap_flag], heap_flag, heap_limit, default_heap, allbits, nlist(sorted(bitd.values())), max_atom, keepalive,
       nlist(magic), nlist(py_magic))
    p = os.path.join(out, "PyConsts.v")
    if not os.path.exists(p) or open(p).read() != txt:
        open(p, "w").write(txt)
