#!/usr/bin/env python3
"""translator: regenerate coq/Gen/*.v from the Rust/Python sources of /repo (fails closed)."""
import os, re, sys

def main():
    repo, out = sys.argv[1], sys.argv[2]
    os.makedirs(out, exist_ok=True)
    import gen_consts
    try:
        gen_consts.generate(repo, out)
    except gen_consts.TranslateError as e:
        print("translator: " + str(e))
        sys.exit(2)

if __name__ == "__main__":
    sys.path.insert(0, os.path.dirname(os.path.abspath(__file__)))
    main()
