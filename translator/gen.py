#!/usr/bin/env python3
"""translator: regenerate coq/Gen/*.v from the Rust/Python sources of /repo (fails closed).
Every translator/gen_*.py exposes generate(repo, outdir) and raises an exception whose class is
named TranslateError when a source region no longer has the expected shape."""
import importlib, os, sys

def main():
    repo, out = sys.argv[1], sys.argv[2]
    os.makedirs(out, exist_ok=True)
    here = os.path.dirname(os.path.abspath(__file__))
    failed = False
    for f in sorted(os.listdir(here)):
        if f.startswith("gen_") and f.endswith(".py"):
            mod = importlib.import_module(f[:-3])
            try:
                mod.generate(repo, out)
            except Exception as e:  # fail closed: any failure is a broken tie
                print("translator (%s): %s: %s" % (f, type(e).__name__, e))
                failed = True
    sys.exit(2 if failed else 0)

if __name__ == "__main__":
    sys.path.insert(0, os.path.dirname(os.path.abspath(__file__)))
    main()
