def generate(repo, out):
    pass
